#!/opt/veriftools/pyvenv/bin/python
import json, sys, glob, jsonschema
m = json.load(open('/verif/MANIFEST.json'))
jsonschema.validate(m, json.load(open('/root/.vp/MANIFEST.schema.json')))
es = json.load(open('/root/.vp/EVIDENCE.schema.json'))
ids = [json.loads(l)['id'] for l in open('/verif/properties.jsonl')]
claimed = [c['property_id'] for c in m['checks']]
na = [c['property_id'] for c in m.get('not_applicable', [])]
assert sorted(claimed + na) == sorted(ids), (sorted(set(ids) - set(claimed) - set(na)), [x for x in claimed if x in na])
bad = []
for c in m['checks']:
    try:
        ev = json.load(open(c['evidence_file']))
        jsonschema.validate(ev, es)
        cov = ev['coverage']
        # a proof-level record is valid only when every obligation was discharged and the run reported no violation:
        # an evidence file written by a run that raised an alarm (e.g. timeouts on an overloaded machine) must not be committed
        if ev['level'] == 'proof':
            if cov.get('obligations', 0) <= 0 or cov.get('discharged') != cov.get('obligations') or ev.get('violations', 0) != 0:
                bad.append('%s: discharged %s of %s obligations, violations %s' % (c['property_id'], cov.get('discharged'), cov.get('obligations'), ev.get('violations')))
            if not cov.get('samples'):
                bad.append('%s: no samples' % c['property_id'])
        if ev['property_id'] != c['property_id']:
            bad.append('%s: evidence file is for %s' % (c['property_id'], ev['property_id']))
        print(c['property_id'], 'evidence ok', ev['level'], cov.get('obligations'), cov.get('discharged'), 'viol', ev.get('violations'))
    except FileNotFoundError:
        print(c['property_id'], 'NO EVIDENCE')
        bad.append('%s: no evidence file' % c['property_id'])
print('manifest ok: claimed', len(claimed), 'n/a', len(na))
if bad:
    print('INVALID EVIDENCE (re-run the check on an idle machine before committing):')
    for b in bad:
        print('  ' + b)
    sys.exit(1)
