#!/opt/veriftools/pyvenv/bin/python
import json, sys, glob, jsonschema
m = json.load(open('/verif/MANIFEST.json'))
jsonschema.validate(m, json.load(open('/root/.vp/MANIFEST.schema.json')))
es = json.load(open('/root/.vp/EVIDENCE.schema.json'))
ids = [json.loads(l)['id'] for l in open('/verif/properties.jsonl')]
claimed = [c['property_id'] for c in m['checks']]
na = [c['property_id'] for c in m.get('not_applicable', [])]
assert sorted(claimed + na) == sorted(ids), (sorted(set(ids) - set(claimed) - set(na)), [x for x in claimed if x in na])
for c in m['checks']:
    try:
        ev = json.load(open(c['evidence_file']))
        jsonschema.validate(ev, es)
        cov = ev['coverage']
        print(c['property_id'], 'evidence ok', ev['level'], cov.get('obligations'), cov.get('discharged'), 'viol', ev.get('violations'))
    except FileNotFoundError:
        print(c['property_id'], 'NO EVIDENCE')
print('manifest ok: claimed', len(claimed), 'n/a', len(na))
