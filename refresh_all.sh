#!/bin/bash
# usage: refresh_all.sh [id...] : runs the quick check of every (or the given) property ONE AT A TIME on /repo's working
# tree, each with its evidence file removed first, then validates MANIFEST.json and every evidence record
# (validate.py refuses a proof-level record with an undischarged obligation). Run before committing evidence.
cd /verif || exit 2
ids="$*"; [ -z "$ids" ] && ids=$(jq -r '.checks[].property_id' MANIFEST.json)
rc=0
for id in $ids; do
  rm -f evidence/$id.json
  out=$(./check $id quick 2>&1); r=$?
  echo "$out" | tail -3
  if [ $r -ne 0 ] || echo "$out" | grep -q '^VIOLATION'; then echo "NOT QUIET: $id rc=$r"; rc=1; fi
done
/opt/veriftools/pyvenv/bin/python validate.py || rc=1
exit $rc
