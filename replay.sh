#!/bin/bash
# replay.sh <file>: a *_test.go replay is run against /repo through an overlay; a .txt replay names the failed obligation.
f="$1"
case "$f" in
 *_test.go)
   export GOFLAGS=-mod=mod GOPROXY=off GOSUMDB=off GOTOOLCHAIN=local
   pkg=$(sed -n 's|^// replay-package: ||p' "$f"); name=$(sed -n 's|^// replay-test: ||p' "$f"); gen=$(sed -n 's|^// replay-specgen: ||p' "$f")
   ov=$(mktemp /var/tmp/ovXXXX.json)
   sg="${f%_test.go}_specgen.go.txt"
   if [ -n "$gen" ] && [ -f "$sg" ]; then
     # the contract's spec functions (evaluating helpers) join the package for this run only
     echo "{\"Replace\": {\"/repo/$pkg/zz_govc_replay_test.go\": \"$f\", \"/repo/$pkg/$gen\": \"$sg\"}}" > $ov
   else
     echo "{\"Replace\": {\"/repo/$pkg/zz_govc_replay_test.go\": \"$f\"}}" > $ov
   fi
   (cd /repo && go test -overlay $ov -vet=off -timeout 60s -count=1 -run "^$name\$" ./$pkg); rc=$?
   rm -f $ov; exit $rc;;
 *) cat "$f";;
esac
