#!/bin/bash
# replay.sh <file>: a *_test.go replay is run against /repo through an overlay; a .txt replay names the failed obligation.
f="$1"
case "$f" in
 *_test.go)
   export GOFLAGS=-mod=mod GOPROXY=off GOSUMDB=off GOTOOLCHAIN=local
   pkg=$(sed -n 's|^// replay-package: ||p' "$f"); name=$(sed -n 's|^// replay-test: ||p' "$f")
   ov=$(mktemp /var/tmp/ovXXXX.json)
   echo "{\"Replace\": {\"/repo/$pkg/zz_govc_replay_test.go\": \"$f\"}}" > $ov
   (cd /repo && go test -overlay $ov -vet=off -timeout 60s -count=1 -run "^$name\$" ./$pkg); rc=$?
   rm -f $ov; exit $rc;;
 *) cat "$f";;
esac
