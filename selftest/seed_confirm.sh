#!/bin/bash
# usage: seed_confirm.sh <prop> <seeddir> : confirm a seeded defect in a scratch worktree of /repo HEAD
export GOFLAGS=-mod=mod GOPROXY=off GOSUMDB=off GOTOOLCHAIN=local
P=$1; S=$2
W=/tmp/confirm-$P-$$
pkg=$(python3 -c "import json;print(json.load(open('$S/meta.json'))['package_dir'])")
tn=$(python3 -c "import json;print(json.load(open('$S/meta.json'))['demo_test_name'])")
tf=$(python3 -c "import json;print(json.load(open('$S/meta.json')).get('demo_test_file','zz_seed_demo_test.go'))")
git -C /repo worktree add -q --detach $W HEAD || exit 9
cd $W
cp $S/$tf $W/$pkg/$tf
echo "== demo on unchanged tree (must pass)"
go test -vet=off -count=1 -run "^$tn\$" ./$pkg 2>&1 | tail -3
r0=${PIPESTATUS[0]}
if ! git apply --check $S/patch.diff 2>/dev/null; then echo "PATCH DOES NOT APPLY to current HEAD"; git -C /repo worktree remove --force $W; exit 8; fi
git apply $S/patch.diff
echo "== build with change"
go build ./... 2>&1 | tail -3; rb=${PIPESTATUS[0]}
echo "== demo with change (must fail)"
go test -vet=off -count=1 -run "^$tn\$" ./$pkg 2>&1 | tail -6
r1=${PIPESTATUS[0]}
echo "== existing tests of the package with change (excluding demo)"
rm $W/$pkg/$tf
go test -vet=off -count=1 ./$pkg 2>&1 | tail -4
echo "RESULT prop=$P unchanged_demo_exit=$r0 build=$rb changed_demo_exit=$r1"
cd /; git -C /repo worktree remove --force $W
