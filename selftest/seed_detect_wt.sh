#!/bin/bash
# usage: seed_detect_wt.sh <seeddir> <prop> [more props...]
# like seed_detect.sh but never touches /repo: the seeded change is applied to a SCRATCH worktree of /repo's HEAD
# (with the current contract mirror copied in) and the quick checks run against it with a scratch evidence dir.
export GOFLAGS=-mod=mod GOPROXY=off GOSUMDB=off GOTOOLCHAIN=local
S=$(realpath $1); shift
id=$(basename $S)
W=/var/tmp/sdwt-$id; V=/var/tmp/sdv-$id
git -C /repo worktree remove --force $W 2>/dev/null; rm -rf $V
git -C /repo worktree add -q --detach $W HEAD || exit 9
cp -a /verif/contracts-mirror/. $W/
mkdir -p $V/evidence $V/replays
for f in props.json claims.json known_findings.txt contracts-mirror MANIFEST.json properties.jsonl; do ln -s /verif/$f $V/$f; done
if ! git -C $W apply $S/patch.diff; then echo "patch does not apply"; git -C /repo worktree remove --force $W; rm -rf $V; exit 8; fi
for q in "$@"; do
  out=$(/verif/bin/govc check -repo $W -verif $V -property $q -tier quick 2>&1); rc=$?
  echo "seed $id check $q exit=$rc"; echo "$out" | grep -E "VIOLATION|KNOWN|obligations discharged" | sed "s#$V#V#g" | cut -c1-300 | head -8
done
git -C /repo worktree remove --force $W 2>/dev/null; git -C /repo worktree prune; rm -rf $V
