#!/bin/bash
# usage: canaries.sh [commit...] : every repaired defect is a must-fail canary: the fix commit is reverted in the working
# tree of /repo (never committed), the quick check of the property it is recorded under must report a VIOLATION, and the
# tree is restored. Run only with a clean /repo and never in parallel with other checks.
cd /verif
if [ -n "$(git -C /repo status --porcelain)" ]; then echo "/repo not clean"; exit 2; fi
list=$(grep '^fixed:' known_findings.txt | awk '{print $2" "$3}' | sed 's/property=//' | sort -u)
[ $# -gt 0 ] && list=$(for c in "$@"; do grep "^fixed:.* $c " known_findings.txt | awk '{print $2" "$3}' | sed 's/property=//'; done | sort -u)
bad=0
while read -r prop commit; do
  [ -z "$prop" ] && continue
  if ! git -C /repo show $commit -- . ':(exclude)*contracts_verif.go' | git -C /repo apply -R 2>/dev/null; then echo "CANARY $prop $commit: cannot revert (later commits touch the same lines)"; continue; fi
  out=$(./check $prop quick 2>&1); rc=$?
  git -C /repo checkout -- .
  n=$(echo "$out" | grep -c '^VIOLATION')
  if [ $rc -ne 0 ] && [ $n -gt 0 ]; then echo "CANARY $prop $commit: detected ($n violation lines)"; else echo "CANARY $prop $commit: MISSED rc=$rc"; bad=1; fi
done <<< "$list"
exit $bad
