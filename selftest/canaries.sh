#!/bin/bash
# usage: canaries.sh [commit...] : every repaired defect is a must-fail canary. For each "fixed:" entry of known_findings.txt
# the fix commit is reverted in a SCRATCH worktree of /repo's HEAD (never in /repo), the quick check of the property
# it is recorded under runs against that worktree with a scratch evidence directory (replay switched off: only
# "does the obligation fail again" is asked), and must report a VIOLATION. /repo and /verif/evidence are not touched.
export GOFLAGS=-mod=mod GOPROXY=off GOSUMDB=off GOTOOLCHAIN=local GOVC_NOREPLAY=1
cd /verif
W=/var/tmp/canary-wt; V=/var/tmp/canary-verif
rm -rf $V; mkdir -p $V/evidence $V/replays
for f in props.json claims.json known_findings.txt contracts-mirror MANIFEST.json properties.jsonl; do ln -s /verif/$f $V/$f; done
list=$(grep '^fixed:' known_findings.txt | awk '{print $2" "$3}' | sed 's/property=//' | sort -u)
[ $# -gt 0 ] && list=$(for c in "$@"; do grep "^fixed:.* $c " known_findings.txt | awk '{print $2" "$3}' | sed 's/property=//'; done | sort -u)
bad=0
while read -r prop commit; do
  [ -z "$prop" ] && continue
  git -C /repo worktree remove --force $W 2>/dev/null; git -C /repo worktree add -q --detach $W HEAD || exit 9
  if ! git -C /repo show $commit -- . ':(exclude)*contracts_verif.go' | git -C $W apply -R 2>/dev/null; then echo "CANARY $prop $commit: cannot revert (later commits touch the same lines)"; continue; fi
  out=$(/verif/bin/govc check -repo $W -verif $V -property $prop -tier quick 2>&1); rc=$?
  n=$(echo "$out" | grep -c '^VIOLATION')
  if [ $rc -ne 0 ] && [ $n -gt 0 ]; then echo "CANARY $prop $commit: detected ($n violation lines)"; else echo "CANARY $prop $commit: MISSED rc=$rc $(echo "$out" | tail -1)"; bad=1; fi
done <<< "$list"
git -C /repo worktree remove --force $W 2>/dev/null; git -C /repo worktree prune; rm -rf $V
exit $bad
