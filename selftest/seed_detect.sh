#!/bin/bash
# usage: seed_detect.sh <prop> <seeddir-or-/verif/seeded/id> [more props to check...]
# applies the seeded change to /repo, runs the quick checks, and restores /repo straight afterwards
P=$1; S=$2; shift 2
cd /repo || exit 9
if [ -n "$(git status --porcelain)" ]; then echo "/repo not clean"; exit 9; fi
git apply $S/patch.diff || { echo "patch does not apply"; exit 8; }
B=$(mktemp -d /var/tmp/evbakXXXX); cp -a /verif/evidence/. $B/
for q in $P "$@"; do
  out=$(cd /verif && ./check $q quick 2>&1); rc=$?
  echo "check $q exit=$rc"; echo "$out" | grep -E "VIOLATION|KNOWN|obligations discharged" | cut -c1-260 | head -6
done
git checkout -- . ; git status --porcelain | head -3
cp -a $B/. /verif/evidence/; rm -rf $B
