#!/bin/bash
# usage: mut.sh <file-in-repo> <sed-expr> <pkgs> [func]   — apply a one-line mutation to a scratch copy and run govc prove on it
set -e
D=$(mktemp -d /var/tmp/mutXXXX)
rsync -a --exclude .git /repo/ $D/
before=$(md5sum $D/$1 | cut -d' ' -f1)
sed -i "$2" $D/$1
after=$(md5sum $D/$1 | cut -d' ' -f1)
if [ "$before" = "$after" ]; then echo "MUTATION DID NOT APPLY"; rm -rf $D; exit 3; fi
(cd $D && diff <(cat /repo/$1) $1 | head -6) || true
export GOFLAGS=-mod=mod GOPROXY=off GOSUMDB=off GOTOOLCHAIN=local
(cd $D && go build ./... ) || { echo "MUTANT DOES NOT BUILD"; rm -rf $D; exit 4; }
set +e
/verif/bin/govc prove -repo $D -pkgs "$3" ${4:+-func $4} -timeout 20 -j 14 2>&1 | grep -v "^loaded" | cut -c1-220 | head -12
rm -rf $D
