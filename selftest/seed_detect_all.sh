#!/bin/bash
# usage: seed_detect_all.sh <seed-id>...   (e.g. C08-2): runs the quick check of the seed's property with the change applied
cd /verif
for s in "$@"; do
  p=${s%%-*}
  echo "=== $s"
  ./selftest/seed_detect.sh $p /verif/seeded/$s 2>&1 | tail -4 | cut -c1-300
done
