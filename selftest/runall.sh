#!/bin/bash
# runs every claimed quick check on the current tree; prints one line per property
mkdir -p /var/tmp/runs
cd /verif
ids=$(python3 -c "import json;print(' '.join(c['property_id'] for c in json.load(open('MANIFEST.json'))['checks']))")
for id in ${@:-$ids}; do
  ./check $id ${TIER:-quick} > /var/tmp/runs/$id.log 2>&1; rc=$?
  echo "$id rc=$rc $(grep 'obligations discharged' /var/tmp/runs/$id.log | tail -1)"
done
