#!/bin/bash
export GOFLAGS=-mod=mod GOPROXY=off GOSUMDB=off GOTOOLCHAIN=local
cd /verif/engine && go build -o /verif/bin/govc ./cmd/govc
