package main

import (
	"flag"
	"fmt"
	"os"
	"sort"
	"strings"
	"time"

	"govc/vc"
)

func main() {
	if len(os.Args) < 2 {
		fmt.Fprintln(os.Stderr, "usage: govc prove|dump ...")
		os.Exit(2)
	}
	switch os.Args[1] {
	case "prove":
		prove(os.Args[2:])
	case "check":
		check(os.Args[2:])
	default:
		fmt.Fprintln(os.Stderr, "unknown command")
		os.Exit(2)
	}
}

func prove(args []string) {
	fs := flag.NewFlagSet("prove", flag.ExitOnError)
	repo := fs.String("repo", "/repo", "repository")
	mirror := fs.String("mirror", "/verif/contracts-mirror", "contract mirror")
	pkgs := fs.String("pkgs", "", "comma separated package dirs")
	only := fs.String("func", "", "only functions whose key contains this")
	timeout := fs.Int("timeout", 10, "per-obligation timeout (s)")
	workers := fs.Int("j", 8, "parallel queries")
	scratch := fs.String("scratch", "", "scratch dir")
	verbose := fs.Bool("v", false, "verbose")
	fs.Parse(args)
	t0 := time.Now()
	e := vc.NewEngine(*repo, *mirror)
	if err := e.Load(strings.Split(*pkgs, ",")); err != nil {
		fmt.Fprintln(os.Stderr, "load:", err)
		os.Exit(2)
	}
	for _, er := range e.Errors {
		fmt.Println("ERROR", er)
	}
	fmt.Printf("loaded in %.1fs\n", time.Since(t0).Seconds())
	dir := *scratch
	if dir == "" {
		d, _ := os.MkdirTemp("/var/tmp", "govc")
		dir = d
		defer os.RemoveAll(d)
	}
	fail := 0
	for _, bc := range e.SortedContracts() {
		key := bc.KeyString()
		if *only != "" && !strings.Contains(key, *only) {
			continue
		}
		t1 := time.Now()
		rep := e.VerifyFunc(bc)
		if rep.Err != "" {
			fmt.Printf("FUNC %s: %s\n", key, rep.Err)
			fail++
			continue
		}
		res := vc.Discharge(rep.Unit.Obls, dir, *timeout, *workers)
		ok := 0
		for _, r := range res {
			if r.OK {
				ok++
			}
		}
		fmt.Printf("FUNC %s: %d/%d obligations (%.1fs)\n", key, ok, len(res), time.Since(t1).Seconds())
		for _, r := range res {
			if !r.OK || *verbose {
				fmt.Printf("   %-8s %-14s %s  [%s %.2fs] %s\n", r.V.Status, r.O.Kind, r.O.Name, r.V.Solver, r.V.Seconds, r.V.Script)
				if !r.OK {
					fail++
				}
			}
		}
		var tr []string
		for k := range rep.Unit.Trusted {
			tr = append(tr, k)
		}
		sort.Strings(tr)
		if *verbose {
			for _, k := range tr {
				fmt.Println("   trusted:", k)
			}
			for _, w := range rep.Unit.Warnings {
				fmt.Println("   warning:", w)
			}
		}
	}
	if fail > 0 {
		os.Exit(1)
	}
}
