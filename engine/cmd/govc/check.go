package main

import (
	"encoding/json"
	"flag"
	"fmt"
	"os"
	"path/filepath"
	"sort"
	"strconv"
	"strings"
	"sync"
	"time"

	"govc/vc"
)

// PropSpec: which functions under contract constitute a property.
type PropSpec struct {
	Packages   []string `json:"packages"`
	Functions  []string `json:"functions"` // keys "pkgpath.(*T).M"; a trailing * matches a prefix
	NotCovered []string `json:"not_covered"`
	Note       string   `json:"note"`
	MinObls    int      `json:"min_obligations"`
}

type knownFinding struct {
	Prop, Obligation, What string
}

func loadKnown(path string) (found []knownFinding, fixed []string) {
	data, err := os.ReadFile(path)
	if err != nil {
		return
	}
	for _, ln := range strings.Split(string(data), "\n") {
		ln = strings.TrimSpace(ln)
		if strings.HasPrefix(ln, "fixed:") {
			fixed = append(fixed, ln)
			continue
		}
		if !strings.HasPrefix(ln, "finding:") {
			continue
		}
		// finding: property=C06 obligation="..." what="..."
		kf := knownFinding{}
		rest := strings.TrimSpace(strings.TrimPrefix(ln, "finding:"))
		for _, key := range []string{"property=", "obligation=", "what="} {
			i := strings.Index(rest, key)
			if i < 0 {
				continue
			}
			v := rest[i+len(key):]
			if strings.HasPrefix(v, "\"") {
				j := strings.Index(v[1:], "\"")
				v = v[1 : 1+j]
			} else if j := strings.IndexByte(v, ' '); j >= 0 {
				v = v[:j]
			}
			switch key {
			case "property=":
				kf.Prop = v
			case "obligation=":
				kf.Obligation = v
			case "what=":
				kf.What = v
			}
		}
		found = append(found, kf)
	}
	return
}

func oblID(r vc.Result) string {
	return r.O.Fn + " :: " + r.O.Kind + " :: " + r.O.Name
}

func check(args []string) {
	fs := flag.NewFlagSet("check", flag.ExitOnError)
	repo := fs.String("repo", "/repo", "repository")
	verif := fs.String("verif", "/verif", "verif dir")
	prop := fs.String("property", "", "property id")
	tier := fs.String("tier", "quick", "quick|thorough")
	workers := fs.Int("j", 10, "parallel queries")
	keep := fs.Bool("keep", false, "keep scratch")
	fs.Parse(args)
	t0 := time.Now()
	seed := 0
	if s := os.Getenv("VERIF_SEED"); s != "" {
		seed, _ = strconv.Atoi(s)
	}
	var specs map[string]*PropSpec
	data, err := os.ReadFile(filepath.Join(*verif, "props.json"))
	if err != nil {
		fatal(err)
	}
	if err := json.Unmarshal(data, &specs); err != nil {
		fatal(err)
	}
	ps := specs[*prop]
	if ps == nil {
		fatal(fmt.Errorf("no such property %s", *prop))
	}
	// CPU seconds per solver process and attempt; the retry ladder below goes to three times this. The slowest obligations
	// of the unchanged tree (C10 plOK, C13 buffered.Conn.Write: cvc5 only) need 23-28 s, measured over repeated runs
	timeout := 45
	if *tier == "thorough" {
		timeout = 120
	}
	known, _ := loadKnown(filepath.Join(*verif, "known_findings.txt"))
	scratch, _ := os.MkdirTemp("/var/tmp", "govc-"+*prop+"-")
	if !*keep {
		defer os.RemoveAll(scratch)
	}
	e := vc.NewEngine(*repo, filepath.Join(*verif, "contracts-mirror"))
	if err := e.Load(ps.Packages); err != nil {
		// every error lies in a generated contract file: the code still compiles but a contract no longer type-checks
		// against it (a field or function a clause names was removed or changed type) - the contracts of this property
		// do not bind the code any more: reported as a violation (stale contract), never as a pass
		msg := err.Error()
		onlyContracts := strings.Contains(msg, vc.GenFileName)
		for _, ln := range strings.Split(msg, "\n") {
			if strings.TrimSpace(ln) == "" || strings.HasPrefix(ln, "load errors") {
				continue
			}
			if !strings.Contains(ln, vc.GenFileName) {
				onlyContracts = false
			}
		}
		if onlyContracts {
			replayDir := filepath.Join(*verif, "replays", *prop)
			os.RemoveAll(replayDir)
			os.MkdirAll(replayDir, 0o755)
			f := filepath.Join(replayDir, "stale_contracts_do_not_typecheck.txt")
			os.WriteFile(f, []byte("property: "+*prop+"\nfailed obligation: the contracts of this property type-check against the code\nkind: stale contract\n\nThe code compiles, but the contract clauses (generated file "+vc.GenFileName+") do not type-check against it any more:\n\n"+msg+"\n"), 0o644)
			fmt.Printf("%s %s: contracts do not type-check against the code (stale)\n", *prop, *tier)
			fmt.Printf("VIOLATION property=%s replay=%s no-failing-input-found\n", *prop, f)
			os.RemoveAll(scratch)
			os.Exit(1)
		}
		// the tree itself does not load/type-check: undecidable here, not a property verdict
		fmt.Fprintln(os.Stderr, "govc: load failed:", err)
		os.RemoveAll(scratch)
		os.Exit(2)
	}
	replayDir := filepath.Join(*verif, "replays", *prop)
	os.RemoveAll(replayDir) // replays describe this run only
	os.MkdirAll(replayDir, 0o755)
	var results []vc.Result
	var funcs []map[string]interface{}
	trusted := map[string]bool{}
	var warnings []string
	violations := 0
	var vioLines []string
	matched := map[string]bool{}
	var selected []*vc.BoundContract
	for _, bc := range e.SortedContracts() {
		key := bc.KeyString()
		for _, pat := range ps.Functions {
			full := pat
			if !strings.HasPrefix(pat, "github.com/") {
				full = "github.com/cnotch/ipchub/" + pat
			}
			if full == key || (strings.HasSuffix(full, "*") && strings.HasPrefix(key, strings.TrimSuffix(full, "*"))) {
				if !matched[key] {
					selected = append(selected, bc)
				}
				matched[key] = true
				matched[pat] = true
			}
		}
	}
	// a function the property depends on that no longer has a bound contract: the proof no longer covers the code
	staleMsgs := append([]string{}, e.Errors...)
	for _, pat := range ps.Functions {
		if !matched[pat] {
			staleMsgs = append(staleMsgs, "function under contract not found: "+pat)
		}
	}
	type funcRes struct {
		rep *vc.FuncReport
		res []vc.Result
	}
	for _, bc := range selected {
		t1 := time.Now()
		rep := e.VerifyFunc(bc)
		fi := map[string]interface{}{"function": rep.Key}
		if rep.Err != "" {
			fi["error"] = rep.Err
			funcs = append(funcs, fi)
			staleMsgs = append(staleMsgs, rep.Key+": "+rep.Err)
			continue
		}
		res := vc.Discharge(rep.Unit.Obls, scratch, timeout, *workers)
		// retry ladder for undecided obligations: larger budget before anything is reported
		var wg sync.WaitGroup
		sem := make(chan struct{}, 6)
		nretry := 0
		// when some obligation of this function is already conclusively refuted the verdict is decided: no retries
		refuted := false
		undecided := 0
		for i := range res {
			if !res[i].OK && res[i].V.Status == "sat" && res[i].O.Expect == "unsat" {
				refuted = true
			}
			if !res[i].OK && (res[i].V.Status == "timeout" || res[i].V.Status == "unknown") {
				undecided++
			}
		}
		for i := range res {
			if refuted || undecided > 6 {
				break // many undecided obligations at once mean the code changed under the proof, not solver noise
			}
			if !res[i].OK && (res[i].V.Status == "timeout" || res[i].V.Status == "unknown") && nretry < 6 {
				nretry++
				i := i
				script := res[i].O.Script(nil)
				wg.Add(1)
				go func() {
					defer wg.Done()
					sem <- struct{}{}
					defer func() { <-sem }()
					v := vc.RunQuery(script, scratch, fmt.Sprintf("retry%s%04d", sanitize(rep.Key)[len(sanitize(rep.Key))-8:], i), timeout*3, vc.SolversWide)
					res[i].V = v
					res[i].OK = v.Status == res[i].O.Expect
				}()
			}
		}
		wg.Wait()
		ok := 0
		for _, r := range res {
			if r.OK {
				ok++
			}
		}
		fi["obligations"] = len(res)
		fi["discharged"] = ok
		fi["seconds"] = time.Since(t1).Seconds()
		var inl []string
		for k := range rep.Unit.Inlined {
			inl = append(inl, k)
		}
		sort.Strings(inl)
		if len(inl) > 0 {
			fi["inlined_callees"] = inl
		}
		funcs = append(funcs, fi)
		for k := range rep.Unit.Trusted {
			trusted[k] = true
		}
		warnings = append(warnings, rep.Unit.Warnings...)
		results = append(results, res...)
	}
	// verdicts
	total, discharged := 0, 0
	bySolver := map[string]int{}
	solverTime, solverCPU := 0.0, 0.0
	var samples []map[string]interface{}
	var knownLines []string
	for _, r := range results {
		id := oblID(r)
		var kf *knownFinding
		for i := range known {
			if known[i].Prop == *prop && known[i].Obligation == id {
				kf = &known[i]
			}
		}
		if kf != nil {
			if !r.OK {
				knownLines = append(knownLines, fmt.Sprintf("KNOWN-FINDING: property=%s %s [%s]", *prop, kf.What, id))
			} else {
				knownLines = append(knownLines, fmt.Sprintf("NOTE: known finding no longer reproduces: %s", id))
			}
			continue
		}
		total++
		bySolver[r.V.Solver]++
		solverTime += r.V.Seconds
		solverCPU += r.V.CPU
		if r.OK {
			discharged++
			if len(samples) < 12 && r.V.Solver != "simplifier" {
				samples = append(samples, map[string]interface{}{"obligation": id, "verdict": r.V.Status, "expected": r.O.Expect, "solver": r.V.Solver, "seconds": r.V.Seconds, "cpu_seconds": r.V.CPU})
			}
			continue
		}
		violations++
		file, reproduced := writeReplay(e, *prop, replayDir, r, scratch)
		line := fmt.Sprintf("VIOLATION property=%s replay=%s", *prop, file)
		if !reproduced {
			line += " no-failing-input-found"
		}
		vioLines = append(vioLines, line)
		samples = append(samples, map[string]interface{}{"obligation": id, "verdict": r.V.Status, "expected": r.O.Expect, "solver": r.V.Solver, "seconds": r.V.Seconds, "cpu_seconds": r.V.CPU, "replay": file})
	}
	for i, m := range staleMsgs {
		violations++
		total++
		file := filepath.Join(replayDir, fmt.Sprintf("stale_%d.txt", i))
		os.WriteFile(file, []byte("obligation: contract binds to the code under "+*prop+"\nfailed: "+m+"\nThe contract no longer matches the code it specifies; the proof does not cover the current tree.\n"), 0o644)
		vioLines = append(vioLines, fmt.Sprintf("VIOLATION property=%s replay=%s no-failing-input-found", *prop, file))
	}
	if ps.MinObls > 0 && total < ps.MinObls {
		fmt.Fprintf(os.Stderr, "govc: vacuity guard: %d obligations generated, expected at least %d\n", total, ps.MinObls)
		violations++
		file := filepath.Join(replayDir, "vacuity.txt")
		os.WriteFile(file, []byte(fmt.Sprintf("obligation count %d below committed minimum %d\n", total, ps.MinObls)), 0o644)
		vioLines = append(vioLines, fmt.Sprintf("VIOLATION property=%s replay=%s no-failing-input-found", *prop, file))
	}
	// the slowest discharged obligations (stability watch: anything near the budget is a candidate for a false alarm)
	sorted := append([]vc.Result{}, results...)
	sort.Slice(sorted, func(i, j int) bool { return sorted[i].V.CPU > sorted[j].V.CPU }) // budgets are CPU seconds
	var slowest []map[string]interface{}
	for i := 0; i < len(sorted) && i < 6; i++ {
		slowest = append(slowest, map[string]interface{}{"obligation": oblID(sorted[i]), "seconds": sorted[i].V.Seconds, "cpu_seconds": sorted[i].V.CPU, "solver": sorted[i].V.Solver, "verdict": sorted[i].V.Status})
	}
	var tb []string
	for k := range trusted {
		tb = append(tb, k)
	}
	sort.Strings(tb)
	tb = append(tb, "the VC generator govc itself (semantics given to go/ssa, /verif/DESIGN.md Appendix A)", "SMT solvers z3 4.8.12 / z3 5.1.0 / cvc5 1.0.3 (an unsat answer from any one is accepted)", "slice and string headers in the entry state are well-formed (0 <= len <= cap <= 2^48)")
	ev := map[string]interface{}{
		"property_id": *prop,
		"tier":        *tier,
		"seed":        seed,
		"level":       "proof",
		"coverage": map[string]interface{}{
			"obligations":       total,
			"discharged":        discharged,
			"checker_cmd":       fmt.Sprintf("/verif/bin/govc check -property %s -tier %s", *prop, *tier),
			"trusted_base":      tb,
			"functions":         funcs,
			"by_back_end":       bySolver,
			"solver_seconds":    solverTime,
			"solver_cpu_seconds": solverCPU,
			"budget_unit":       fmt.Sprintf("CPU seconds per solver process (RLIMIT_CPU); wall-clock backstop at %dx the budget", vc.WallFactor),
			"samples":           samples,
			"slowest":           slowest,
			"not_covered":       ps.NotCovered,
			"known_findings":    knownLines,
			"contract_files":    e.MirrorUsed,
			"per_obligation_timeout_s": timeout,
			"warnings":          warnings,
		},
		"assumptions": tb,
		"wall_s":      time.Since(t0).Seconds(),
		"violations":  violations,
	}
	os.MkdirAll(filepath.Join(*verif, "evidence"), 0o755)
	out, _ := json.MarshalIndent(ev, "", " ")
	os.WriteFile(filepath.Join(*verif, "evidence", *prop+".json"), out, 0o644)
	for _, l := range knownLines {
		fmt.Println(l)
	}
	fmt.Printf("%s %s: %d/%d obligations discharged over %d functions in %.1fs\n", *prop, *tier, discharged, total, len(funcs), time.Since(t0).Seconds())
	printed := map[string]bool{}
	for _, l := range vioLines {
		if !printed[l] {
			printed[l] = true
			fmt.Println(l)
		}
	}
	if violations > 0 {
		if !*keep {
			os.RemoveAll(scratch) // os.Exit skips the deferred removal
		}
		os.Exit(1)
	}
}

var replaySpent time.Duration

func fatal(err error) {
	fmt.Fprintln(os.Stderr, "govc:", err)
	os.Exit(2)
}

// writeReplay records the failed obligation; reproduced is true only when a concrete input was
// derived from the solver's model and the real code violated the clause on it.
func writeReplay(e *vc.Engine, prop, dir string, r vc.Result, scratch string) (string, bool) {
	name := sanitize(r.O.Fn + "__" + r.O.Kind + "__" + r.O.Name)
	if len(name) > 150 {
		name = name[:150]
	}
	rp, ok := "", false
	// replays are best effort and bounded per run: the first failed obligations get a model-derived input run against
	// the real code, later ones (a change that breaks many obligations at once) are reported without one
	if os.Getenv("GOVC_NOREPLAY") == "" && replaySpent < 240*time.Second { // selftest/canaries.sh only asks whether the obligation fails
		t0 := time.Now()
		rp, ok = vc.TryReplay(e, r, dir, name, scratch)
		replaySpent += time.Since(t0)
	}
	if ok {
		return rp, true
	}
	file := filepath.Join(dir, name+".txt")
	var sb strings.Builder
	if rp != "" {
		fmt.Fprintf(&sb, "candidate input derived from the model (did not reproduce a panic when run): %s\n", rp)
	}
	fmt.Fprintf(&sb, "property: %s\nfailed obligation: %s\nkind: %s\nfunction: %s\nsource: %s\nexpected: %s\nsolver verdict: %s (%s, %.2fs wall, %.2fs cpu)\n\n", prop, r.O.Name, r.O.Kind, r.O.Fn, r.O.Pos, r.O.Expect, r.V.Status, r.V.Solver, r.V.Seconds, r.V.CPU)
	sb.WriteString("solver output:\n" + r.V.Output + "\n")
	if r.V.Script != "" {
		if data, err := os.ReadFile(r.V.Script); err == nil {
			q := filepath.Join(dir, name+".smt2")
			os.WriteFile(q, data, 0o644)
			fmt.Fprintf(&sb, "\nquery: %s\n", q)
		}
	}
	os.WriteFile(file, []byte(sb.String()), 0o644)
	return file, false
}

func sanitize(s string) string {
	var sb strings.Builder
	for _, r := range s {
		if r >= 'a' && r <= 'z' || r >= 'A' && r <= 'Z' || r >= '0' && r <= '9' || r == '_' || r == '-' || r == '.' {
			sb.WriteRune(r)
		} else {
			sb.WriteByte('_')
		}
	}
	return sb.String()
}
