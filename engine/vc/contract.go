package vc

import (
	"bufio"
	"fmt"
	"os"
	"path/filepath"
	"regexp"
	"strings"
)

// Contract files are comment-only Go files  <pkgdir>/contracts_verif.go  (build tag verif).
// Every line starting with "//@" is contract text.  From them a Go file is generated
// (never written into the repository: it is supplied to the loader as an overlay) in which
// every clause is an ordinary Go expression inside a function with the same signature as the
// function under contract, so go/types resolves and types every identifier.

type Clause struct {
	Kind string // requires ensures modifies invariant decreases local terminates inline recovers nopanic fresh assume_ensures lockinv ...
	Loop int    // for invariant / decreases / loopmodifies
	Text string
	Line int // line in the contract file
	Name string // optional label: "ensures[label]"
}

type FuncContract struct {
	PkgDir   string
	Sig      string // full "func ..." header as written
	Recv     string // receiver type text ("*Reader", "Reader", "" )
	RecvName string
	Name     string
	Extern   bool
	Spec     bool   // spec function: Body holds the expression
	Body     string // spec body
	Rec      bool   // recursive spec function: an uninterpreted function plus definitional unfoldings
	Lemma    bool   // lemma proved by induction on its last parameter
	IndDir   string // "up" | "down"
	IndFrom  string // start of the induction (expression over the other parameters)
	Clauses  []Clause
	File     string
	Line     int
	GenName  string // name of the generated function
}

func (fc *FuncContract) Key() string {
	if fc.Recv != "" {
		return "(" + fc.Recv + ")." + fc.Name
	}
	return fc.Name
}

type ContractFile struct {
	PkgDir  string
	PkgName string
	Imports []string
	Funcs   []*FuncContract
	Globals []Clause // package-level directives (readonly globals, type invariants)
	Path    string
}

var sigRe = regexp.MustCompile(`^func\s*(\(\s*(\w+)\s+([^)]+)\))?\s*([\w.]+)\s*\(`)

func ParseContractFile(path string) (*ContractFile, error) {
	f, err := os.Open(path)
	if err != nil {
		return nil, err
	}
	defer f.Close()
	cf := &ContractFile{Path: path, PkgDir: filepath.Dir(path)}
	sc := bufio.NewScanner(f)
	sc.Buffer(make([]byte, 1<<20), 1<<20)
	var cur *FuncContract
	ln := 0
	var lastClause *Clause
	for sc.Scan() {
		ln++
		line := sc.Text()
		t := strings.TrimSpace(line)
		if strings.HasPrefix(t, "package ") {
			cf.PkgName = strings.TrimSpace(strings.TrimPrefix(t, "package "))
			continue
		}
		if !strings.HasPrefix(t, "//@") {
			if t != "" && !strings.HasPrefix(t, "//") {
				return nil, fmt.Errorf("%s:%d: contract files must be comment-only", path, ln)
			}
			continue
		}
		t = strings.TrimSpace(strings.TrimPrefix(t, "//@"))
		if t == "" || strings.HasPrefix(t, "//") {
			lastClause = nil
			continue
		}
		if i := strings.Index(t, " //"); i >= 0 { // trailing comment
			t = strings.TrimSpace(t[:i])
		}
		switch {
		case strings.HasPrefix(t, "import "):
			cf.Imports = append(cf.Imports, strings.TrimSpace(strings.TrimPrefix(t, "import ")))
			lastClause = nil
		case strings.HasPrefix(t, "func "), strings.HasPrefix(t, "extern func "), strings.HasPrefix(t, "spec func "), strings.HasPrefix(t, "lemma func "):
			fc := &FuncContract{PkgDir: cf.PkgDir, File: path, Line: ln}
			if strings.HasPrefix(t, "extern ") {
				fc.Extern = true
				t = strings.TrimPrefix(t, "extern ")
			}
			if strings.HasPrefix(t, "lemma ") {
				fc.Lemma = true
				t = "spec " + strings.TrimPrefix(t, "lemma ")
			}
			if strings.HasPrefix(t, "spec ") {
				fc.Spec = true
				t = strings.TrimPrefix(t, "spec ")
				if i := strings.Index(t, " = "); i >= 0 {
					fc.Body = strings.TrimSpace(t[i+3:])
					t = strings.TrimSpace(t[:i])
				}
			}
			m := sigRe.FindStringSubmatch(t)
			if m == nil {
				return nil, fmt.Errorf("%s:%d: cannot parse signature %q", path, ln, t)
			}
			fc.Sig = t
			fc.RecvName = m[2]
			fc.Recv = strings.TrimSpace(m[3])
			fc.Name = m[4]
			cf.Funcs = append(cf.Funcs, fc)
			cur = fc
			lastClause = nil
			if fc.Spec {
				lastClause = &Clause{Kind: "specbody"}
			}
		case strings.HasPrefix(t, "global ") || strings.HasPrefix(t, "type "):
			cf.Globals = append(cf.Globals, Clause{Kind: strings.Fields(t)[0], Text: strings.TrimSpace(t[strings.Index(t, " "):]), Line: ln})
			lastClause = nil
		default:
			if cur == nil {
				return nil, fmt.Errorf("%s:%d: clause outside a function contract", path, ln)
			}
			kind, rest := splitWord(t)
			if kind == "induction" && cur.Lemma {
				// "induction up from <expr>" / "induction down from <expr>" (on the lemma's last parameter)
				w, r2 := splitWord(rest)
				w2, r3 := splitWord(r2)
				if (w != "up" && w != "down") || w2 != "from" {
					return nil, fmt.Errorf("%s:%d: expected 'induction up|down from <expr>'", path, ln)
				}
				cur.IndDir, cur.IndFrom = w, r3
				lastClause = nil
				continue
			}
			cl := Clause{Line: ln, Loop: -1}
			if kind == "loop" {
				var n int
				w, r2 := splitWord(rest)
				if _, err := fmt.Sscanf(strings.TrimSuffix(w, ":"), "%d", &n); err != nil {
					return nil, fmt.Errorf("%s:%d: bad loop ordinal", path, ln)
				}
				cl.Loop = n
				kind, rest = splitWord(r2)
			}
			if i := strings.Index(kind, "["); i > 0 && strings.HasSuffix(kind, "]") {
				cl.Name = kind[i+1 : len(kind)-1]
				kind = kind[:i]
			}
			switch kind {
			case "requires", "ensures", "modifies", "invariant", "decreases", "local", "terminates", "inline",
				"recovers", "nopanic", "fresh", "freshornil", "lemma", "assert", "assume", "pure", "split", "appends", "appendsAll", "copies", "mapStore", "mapDelete", "opaque", "panics", "trusted", "variant", "unroll", "calls_only", "lock", "ghost", "known", "uselemma", "exit", "partial", "onpanic":
				cl.Kind = kind
				cl.Text = rest
				cur.Clauses = append(cur.Clauses, cl)
				lastClause = &cur.Clauses[len(cur.Clauses)-1]
			default:
				// continuation of the previous clause / spec body
				if lastClause == nil {
					return nil, fmt.Errorf("%s:%d: unknown clause %q", path, ln, kind)
				}
				if lastClause.Kind == "specbody" {
					cur.Body += " " + t
				} else {
					lastClause.Text += " " + t
				}
			}
		}
	}
	return cf, sc.Err()
}

func splitWord(s string) (string, string) {
	s = strings.TrimSpace(s)
	i := strings.IndexAny(s, " \t")
	if i < 0 {
		return s, ""
	}
	return s[:i], strings.TrimSpace(s[i:])
}

// ---- expression rewriting: ==>, old(), forall(), exists() -----------------------

// RewriteExpr turns contract expression syntax into plain Go.
func RewriteExpr(s string) (string, error) {
	parts, err := splitTop(s, "==>")
	if err != nil {
		return "", err
	}
	for i := range parts {
		p, err := rewriteGroups(parts[i])
		if err != nil {
			return "", err
		}
		parts[i] = p
	}
	out := parts[len(parts)-1]
	for i := len(parts) - 2; i >= 0; i-- {
		out = "(!(" + parts[i] + ") || (" + out + "))"
	}
	return out, nil
}

// splitTop splits at sep occurrences at bracket depth 0 (outside string/char literals).
func splitTop(s, sep string) ([]string, error) {
	var parts []string
	depth := 0
	start := 0
	for i := 0; i < len(s); i++ {
		ch := s[i]
		switch ch {
		case '"', '\'', '`':
			j := i + 1
			for j < len(s) && s[j] != ch {
				if s[j] == '\\' && ch != '`' {
					j++
				}
				j++
			}
			i = j
		case '(', '[', '{':
			depth++
		case ')', ']', '}':
			depth--
			if depth < 0 {
				return nil, fmt.Errorf("unbalanced brackets in %q", s)
			}
		default:
			if depth == 0 && strings.HasPrefix(s[i:], sep) {
				parts = append(parts, s[start:i])
				i += len(sep) - 1
				start = i + 1
			}
		}
	}
	if depth != 0 {
		return nil, fmt.Errorf("unbalanced brackets in %q", s)
	}
	parts = append(parts, s[start:])
	return parts, nil
}

func isIdentByte(b byte) bool {
	return b == '_' || b >= 'a' && b <= 'z' || b >= 'A' && b <= 'Z' || b >= '0' && b <= '9'
}

// rewriteGroups processes every top-level bracket group of s.
func rewriteGroups(s string) (string, error) {
	var out strings.Builder
	i := 0
	for i < len(s) {
		ch := s[i]
		if ch == '"' || ch == '\'' || ch == '`' {
			j := i + 1
			for j < len(s) && s[j] != ch {
				if s[j] == '\\' && ch != '`' {
					j++
				}
				j++
			}
			if j >= len(s) {
				j = len(s) - 1
			}
			out.WriteString(s[i : j+1])
			i = j + 1
			continue
		}
		if ch == '(' || ch == '[' || ch == '{' {
			// find the matching bracket
			depth := 0
			j := i
			for ; j < len(s); j++ {
				c2 := s[j]
				if c2 == '"' || c2 == '\'' || c2 == '`' {
					k := j + 1
					for k < len(s) && s[k] != c2 {
						if s[k] == '\\' && c2 != '`' {
							k++
						}
						k++
					}
					j = k
					continue
				}
				if c2 == '(' || c2 == '[' || c2 == '{' {
					depth++
				} else if c2 == ')' || c2 == ']' || c2 == '}' {
					depth--
					if depth == 0 {
						break
					}
				}
			}
			if j >= len(s) {
				return "", fmt.Errorf("unbalanced brackets in %q", s)
			}
			inner := s[i+1 : j]
			args, err := splitTop(inner, ",")
			if err != nil {
				return "", err
			}
			// slice expressions a[i:j] are left to Go; colon is not a separator here
			for k := range args {
				a, err := RewriteExpr(args[k])
				if err != nil {
					return "", err
				}
				args[k] = a
			}
			// identifier immediately before the group?
			cur := out.String()
			e := len(cur)
			b := e
			for b > 0 && isIdentByte(cur[b-1]) {
				b--
			}
			ident := cur[b:e]
			if ch == '(' && b > 0 && cur[b-1] == '.' {
				ident = "" // method / qualified call
			}
			switch {
			case ch == '(' && ident == "old":
				if len(args) != 1 {
					return "", fmt.Errorf("old takes one argument: %q", s)
				}
				out.Reset()
				out.WriteString(cur[:b])
				out.WriteString("/*@old*/(" + strings.TrimSpace(args[0]) + ")")
			case ch == '(' && ident == "final":
				if len(args) != 1 {
					return "", fmt.Errorf("final takes one argument: %q", s)
				}
				out.Reset()
				out.WriteString(cur[:b])
				out.WriteString("/*@final*/(" + strings.TrimSpace(args[0]) + ")")
			case ch == '(' && ident == "atExit":
				if len(args) != 2 {
					return "", fmt.Errorf("atExit takes (loop, expr): %q", s)
				}
				out.Reset()
				out.WriteString(cur[:b])
				out.WriteString("/*@exit" + strings.TrimSpace(args[0]) + "*/(" + strings.TrimSpace(args[1]) + ")")
			case ch == '(' && ident == "atHead":
				if len(args) != 1 {
					return "", fmt.Errorf("atHead takes one argument: %q", s)
				}
				out.Reset()
				out.WriteString(cur[:b])
				out.WriteString("/*@head*/(" + strings.TrimSpace(args[0]) + ")")
			case ch == '(' && (ident == "forallk" || ident == "existsk"):
				if len(args) != 2 {
					return "", fmt.Errorf("%s takes (var, body): %q", ident, s)
				}
				out.Reset()
				out.WriteString(cur[:b])
				fmt.Fprintf(&out, "__%s(func(%s int) bool { return %s })", ident, strings.TrimSpace(args[0]), strings.TrimSpace(args[1]))
			case ch == '(' && (ident == "forall" || ident == "exists"):
				if len(args) != 4 {
					return "", fmt.Errorf("%s takes (var, lo, hi, body): %q", ident, s)
				}
				out.Reset()
				out.WriteString(cur[:b])
				fmt.Fprintf(&out, "__%s(%s, %s, func(%s int) bool { return %s })", ident,
					strings.TrimSpace(args[1]), strings.TrimSpace(args[2]), strings.TrimSpace(args[0]), strings.TrimSpace(args[3]))
			default:
				out.WriteByte(ch)
				out.WriteString(strings.Join(args, ","))
				out.WriteByte(s[j])
			}
			i = j + 1
			continue
		}
		out.WriteByte(ch)
		i++
	}
	return out.String(), nil
}

// ---- generation -------------------------------------------------------------------

const genHelpers = `
func __requires(bool)               {}
func __ensures(bool)                {}
func __assert(bool)                 {}
func __invariant(int, bool)         {}
func __decreases(int, int)          {}
func __modifies(...interface{})     {}
func __loopmodifies(int, ...interface{}) {}
func __fresh(...interface{})        {}
func __split(int, ...bool)          {}
func __uselemma(int, func(int) bool) {}
func __forall(lo, hi int, f func(int) bool) bool { return true }
func __exists(lo, hi int, f func(int) bool) bool { return true }
func out(w interface{}) []byte      { return nil }
func seq(x interface{}) []interface{} { return nil }
func misc(x interface{}) int        { return 0 }
func __appends(s interface{}, x interface{}) {}
func __appendsAll(s interface{}, xs interface{}) {}
func sameSeq(a, b []interface{}) bool { return false }
func sameStr(a, b string) bool { return false }
func sameHdr(a, b interface{}) bool { return false }
func distinctBacking(a, b interface{}) bool { return false }
func distinctObj(a, b interface{}) bool { return false }
func mapValuesNonNil(m interface{}) bool { return false }
func isFresh(x interface{}) bool { return false }
func mapAt(m interface{}, key interface{}) interface{} { return nil }
func mapAll(m interface{}) interface{} { return nil }
func ghostAll(name string) interface{} { return nil }
func anyElems(s interface{}) interface{} { return nil }
func anyFld(f interface{}) interface{} { return nil }
func mapHas(m interface{}, key interface{}) bool { return false }
func mapKeyOf(m interface{}, key interface{}) int { return 0 }
func mapKeyPresent(m interface{}, k int) bool { return false }
func mapKeyVisited(m interface{}, k int) bool { return false }
func mapVisitedAll(m interface{}) interface{} { return nil }
func __forallk(f func(int) bool) bool { return true }
func __existsk(f func(int) bool) bool { return true }
func __exit(int, bool) {}
func mapValAtKey(m interface{}, k int) interface{} { return nil }
func exited(loop int) bool { return false }
func disk(path string) int { return 0 }
func diskOfFile(f interface{}) int { return 0 }
func pathKey(path string) int { return 0 }
func __mapStore(m interface{}, key interface{}, v interface{}) {}
func __mapDelete(m interface{}, key interface{}) {}
func __copies(dst interface{}, src interface{}, n int) {}
func ghostInt(x interface{}, name string) int { return 0 }
func ghostBool(x interface{}, name string) bool { return false }
func ghostBytes(x interface{}, name string) []byte { return nil }
func ghostSeq(x interface{}, name string) []interface{} { return nil }
func __calls_only(...interface{})   {}
func all() interface{}              { return nil }
func held(mu interface{}) bool      { return false }
func typeIs(x interface{}, name string) bool { return false }
func allocated(p interface{}) bool  { return true }
func sameSlice(a, b []byte) bool    { return false }
func subslice(a, b []byte) bool     { return false }
func sliceOff(a, b []byte) int      { return 0 }
func iteInt(c bool, a, b int) int   { return 0 }
func iteInt64(c bool, a, b int64) int64 { return 0 }
func iteByte(c bool, a, b byte) byte { return 0 }
func iteStr(c bool, a, b string) string { return "" }
`

// replayHelpers replace genHelpers when a contract clause is EVALUATED on the real code during replay: quantifiers
// iterate, out(w) reads the bytes collected by the replay's writer, and everything that denotes ghost state or an
// identity the running program cannot observe panics with govcGhost (the clause is then "not evaluable").
var replayHelpers = func() string {
	s := genHelpers
	rep := func(sig, body string) {
		i := strings.Index(s, sig)
		if i < 0 {
			panic("replayHelpers: " + sig)
		}
		j := strings.Index(s[i:], "\n")
		s = s[:i] + sig + " " + body + s[i+j:]
	}
	rep("func __forall(lo, hi int, f func(int) bool) bool", "{ for i := lo; i < hi; i++ { if !f(i) { return false } }; return true }")
	rep("func __exists(lo, hi int, f func(int) bool) bool", "{ for i := lo; i < hi; i++ { if f(i) { return true } }; return false }")
	rep("func out(w interface{}) []byte", "{ if g, ok := w.(interface{ govcBytes() []byte }); ok { return g.govcBytes() }; panic(govcGhost{}) }")
	rep("func iteInt(c bool, a, b int) int", "{ if c { return a }; return b }")
	rep("func iteInt64(c bool, a, b int64) int64", "{ if c { return a }; return b }")
	rep("func iteByte(c bool, a, b byte) byte", "{ if c { return a }; return b }")
	rep("func iteStr(c bool, a, b string) string", "{ if c { return a }; return b }")
	for _, g := range []string{"func seq(x interface{}) []interface{}", "func misc(x interface{}) int", "func sameSeq(a, b []interface{}) bool",
		"func sameStr(a, b string) bool", "func sameHdr(a, b interface{}) bool", "func distinctBacking(a, b interface{}) bool", "func distinctObj(a, b interface{}) bool",
		"func mapValuesNonNil(m interface{}) bool", "func isFresh(x interface{}) bool", "func mapAt(m interface{}, key interface{}) interface{}",
		"func mapAll(m interface{}) interface{}", "func mapHas(m interface{}, key interface{}) bool", "func disk(path string) int",
		"func diskOfFile(f interface{}) int", "func pathKey(path string) int", "func ghostInt(x interface{}, name string) int",
		"func ghostBool(x interface{}, name string) bool", "func ghostBytes(x interface{}, name string) []byte",
		"func ghostSeq(x interface{}, name string) []interface{}", "func held(mu interface{}) bool", "func typeIs(x interface{}, name string) bool",
		"func allocated(p interface{}) bool", "func sameSlice(a, b []byte) bool", "func subslice(a, b []byte) bool", "func sliceOff(a, b []byte) int"} {
		rep(g, "{ panic(govcGhost{}) }")
	}
	return "\ntype govcGhost struct{}\n" + s
}()

// ReplayText is the generated file with the replay helpers (uninterpreted spec functions panic with govcGhost).
func ReplayText(gen string) string {
	gen = strings.Replace(gen, genHelpers, replayHelpers, 1)
	return strings.ReplaceAll(gen, `panic("uninterpreted")`, "panic(govcGhost{})")
}

// GenLine records which clause an emitted statement belongs to.
type GenStmt struct {
	FC     *FuncContract
	Clause *Clause
}

// Generate produces the Go text of the overlay file.
func (cf *ContractFile) Generate() (string, error) {
	var sb strings.Builder
	sb.WriteString("// Code generated by govc from contracts_verif.go; DO NOT EDIT.\n\n")
	fmt.Fprintf(&sb, "package %s\n\n", cf.PkgName)
	header := sb.String()
	sb.Reset()
	sb.WriteString(genHelpers)
	for idx, fc := range cf.Funcs {
		if fc.Spec {
			body, err := RewriteExpr(fc.Body)
			if err != nil {
				return "", fmt.Errorf("%s:%d: %v", fc.File, fc.Line, err)
			}
			fc.GenName = fc.Name
			if b := strings.TrimSpace(fc.Body); strings.HasPrefix(b, "rec ") {
				fc.Rec = true
				body, err = RewriteExpr(strings.TrimPrefix(b, "rec "))
				if err != nil {
					return "", fmt.Errorf("%s:%d: %v", fc.File, fc.Line, err)
				}
			}
			if strings.TrimSpace(fc.Body) == "uninterpreted" {
				fmt.Fprintf(&sb, "\n%s { panic(\"uninterpreted\") }\n", fc.Sig)
				continue
			}
			fmt.Fprintf(&sb, "\n%s { return %s }\n", fc.Sig, body)
			if fc.Lemma {
				from, err := RewriteExpr(fc.IndFrom)
				if err != nil || strings.TrimSpace(fc.IndFrom) == "" {
					return "", fmt.Errorf("%s:%d: lemma needs 'induction up|down from <expr>'", fc.File, fc.Line)
				}
				m := sigRe.FindStringSubmatchIndex(fc.Sig)
				sig := fc.Sig[:m[8]] + fc.Name + "__from" + fc.Sig[m[9]:]
				sig = sig[:strings.LastIndex(sig, ")")+1] + " int"
				fmt.Fprintf(&sb, "\n%s { return %s }\n", sig, from)
				// lemmas proved earlier that this proof may use: "uselemma other(args)" under the lemma header
				usig := fc.Sig[:m[8]] + fc.Name + "__uses" + fc.Sig[m[9]:]
				usig = usig[:strings.LastIndex(usig, ")")+1]
				fmt.Fprintf(&sb, "\n%s {\n", usig)
				for _, cl := range fc.Clauses {
					if cl.Kind != "uselemma" {
						continue
					}
					e, err := RewriteExpr(cl.Text)
					if err != nil {
						return "", fmt.Errorf("%s:%d: %v", fc.File, cl.Line, err)
					}
					e = strings.TrimSpace(e)
					inner := e[:len(e)-1]
					sep := ", "
					if strings.HasSuffix(strings.TrimSpace(inner), "(") {
						sep = ""
					}
					fmt.Fprintf(&sb, "\t__uselemma(-1, func(govcK int) bool { return %s%sgovcK) })\n", inner, sep)
				}
				sb.WriteString("}\n")
			}
			continue
		}
		// rename the function in its signature
		m := sigRe.FindStringSubmatchIndex(fc.Sig)
		nameStart, nameEnd := m[8], m[9]
		gen := fmt.Sprintf("__c%d_%s", idx, strings.ReplaceAll(fc.Name, ".", "_"))
		fc.GenName = gen
		sig := fc.Sig
		if fc.Extern && fc.Recv != "" {
			// receiver becomes the first parameter
			rest := sig[nameEnd:] // "(params) results"
			params := strings.TrimPrefix(rest, "(")
			sep := ", "
			if strings.HasPrefix(strings.TrimSpace(params), ")") {
				sep = ""
			}
			sig = "func " + gen + "(" + fc.RecvName + " " + fc.Recv + sep + params
		} else if fc.Extern {
			sig = "func " + gen + sig[nameEnd:]
		} else {
			sig = sig[:nameStart] + gen + sig[nameEnd:]
		}
		fmt.Fprintf(&sb, "\n%s {\n", sig)
		for ci := range fc.Clauses {
			cl := &fc.Clauses[ci]
			if cl.Kind == "local" {
				fmt.Fprintf(&sb, "\tvar %s\n", cl.Text)
				for _, tok := range strings.Fields(cl.Text) {
					fmt.Fprintf(&sb, "\t_ = %s\n", strings.TrimSuffix(tok, ","))
					if !strings.HasSuffix(tok, ",") {
						break
					}
				}
			}
		}
		for ci := range fc.Clauses {
			cl := &fc.Clauses[ci]
			var stmt string
			switch cl.Kind {
			case "requires", "ensures", "assert", "assume", "onpanic":
				e, err := RewriteExpr(cl.Text)
				if err != nil {
					return "", fmt.Errorf("%s:%d: %v", fc.File, cl.Line, err)
				}
				k := cl.Kind
				if k == "assume" {
					k = "assert"
				}
				if k == "onpanic" {
					k = "ensures"
				}
				stmt = fmt.Sprintf("__%s(%s)", k, e)
			case "invariant":
				e, err := RewriteExpr(cl.Text)
				if err != nil {
					return "", fmt.Errorf("%s:%d: %v", fc.File, cl.Line, err)
				}
				stmt = fmt.Sprintf("__invariant(%d, %s)", cl.Loop, e)
			case "decreases":
				e, err := RewriteExpr(cl.Text)
				if err != nil {
					return "", fmt.Errorf("%s:%d: %v", fc.File, cl.Line, err)
				}
				stmt = fmt.Sprintf("__decreases(%d, %s)", cl.Loop, e)
			case "modifies":
				e, err := RewriteExpr(cl.Text)
				if err != nil {
					return "", fmt.Errorf("%s:%d: %v", fc.File, cl.Line, err)
				}
				if cl.Loop >= 0 {
					stmt = fmt.Sprintf("__loopmodifies(%d, %s)", cl.Loop, e)
				} else if strings.TrimSpace(e) == "" || strings.TrimSpace(e) == "nothing" {
					stmt = "__modifies()"
				} else {
					stmt = fmt.Sprintf("__modifies(%s)", e)
				}
			case "fresh", "freshornil":
				stmt = fmt.Sprintf("__fresh(%s)", cl.Text)
			case "copies":
				e, err := RewriteExpr(cl.Text)
				if err != nil {
					return "", fmt.Errorf("%s:%d: %v", fc.File, cl.Line, err)
				}
				stmt = fmt.Sprintf("__copies(%s)", e)
			case "mapStore", "mapDelete":
				e, err := RewriteExpr(cl.Text)
				if err != nil {
					return "", fmt.Errorf("%s:%d: %v", fc.File, cl.Line, err)
				}
				stmt = fmt.Sprintf("__%s(%s)", cl.Kind, e)
			case "appendsAll":
				e, err := RewriteExpr(cl.Text)
				if err != nil {
					return "", fmt.Errorf("%s:%d: %v", fc.File, cl.Line, err)
				}
				stmt = fmt.Sprintf("__appendsAll(%s)", e)
			case "appends":
				e, err := RewriteExpr(cl.Text)
				if err != nil {
					return "", fmt.Errorf("%s:%d: %v", fc.File, cl.Line, err)
				}
				stmt = fmt.Sprintf("__appends(%s)", e)
			case "exit":
				e, err := RewriteExpr(cl.Text)
				if err != nil {
					return "", fmt.Errorf("%s:%d: %v", fc.File, cl.Line, err)
				}
				stmt = fmt.Sprintf("__exit(%d, %s)", cl.Loop, e)
			case "uselemma":
				e, err := RewriteExpr(cl.Text)
				if err != nil {
					return "", fmt.Errorf("%s:%d: %v", fc.File, cl.Line, err)
				}
				e = strings.TrimSpace(e)
				if !strings.HasSuffix(e, ")") {
					return "", fmt.Errorf("%s:%d: uselemma needs name(args)", fc.File, cl.Line)
				}
				inner := e[:len(e)-1]
				sep := ", "
				if strings.HasSuffix(strings.TrimSpace(inner), "(") {
					sep = ""
				}
				stmt = fmt.Sprintf("__uselemma(%d, func(govcK int) bool { return %s%sgovcK) })", cl.Loop, inner, sep)
			case "split":
				e, err := RewriteExpr(cl.Text)
				if err != nil {
					return "", fmt.Errorf("%s:%d: %v", fc.File, cl.Line, err)
				}
				stmt = fmt.Sprintf("__split(%d, %s)", cl.Loop, e)
			default:
				continue
			}
			fmt.Fprintf(&sb, "\t%s // clause %d\n", stmt, ci)
		}
		sb.WriteString("\treturn\n}\n")
	}
	body := sb.String()
	var imps strings.Builder
	for _, im := range cf.Imports {
		// emit only imports that the generated text references
		f := strings.Fields(im)
		path := strings.Trim(f[len(f)-1], "\"")
		alias := path[strings.LastIndex(path, "/")+1:]
		if len(f) == 2 {
			alias = f[0]
		}
		if strings.Contains(body, alias+".") {
			fmt.Fprintf(&imps, "import %s\n", im)
		}
	}
	return header + imps.String() + body, nil
}
