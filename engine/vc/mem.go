package vc

import "fmt"

// Mem is a lazy memory term for one scalar kind: a map Addr -> value of sort S.
// Reads are rewritten through the term (read-over-write / read-over-copy), so
// every load becomes a ground term over the base functions.
type Mem struct {
	id   int
	kind int
	S    Sort
	name string // base: UF name
	prev *Mem
	// store
	addr, val *Term
	// copy: elements Idx(dBase, dOff+i) for i<n come from src at Idx(sBase, sOff+i), path suffix sfx
	dBase, dOff, sBase, sOff, n *Term
	src                         *Mem
	sfx                         []int
	// zero: addresses matching (zBase, zSfx) (see inRange) read as zero
	// havoc: where pred holds, value comes from fresh
	fresh *Mem
	pred  func(a *Term) *Term
	// ite
	cond *Term
	alt  *Mem
	entry bool // base memory describing the entry state
	born  int  // base (havoc) memory: number of objects allocated when it was created (-1: unknown)
}

const (
	mBase = iota
	mStore
	mCopy
	mZeroRange
	mHavoc
	mIte
)

type MemCtx struct {
	c     *Ctx
	next  int
	cache map[[2]int]*Term
	// Opaque: objects returned as "fresh" by assumed contracts: new, but with unknown contents
	Opaque map[int]bool
	// NextObj points at the allocation counter of the unit: a havoc memory remembers its value at creation
	NextObj *int
}

func NewMemCtx(c *Ctx) *MemCtx {
	return &MemCtx{c: c, cache: map[[2]int]*Term{}, Opaque: map[int]bool{}}
}

func (mc *MemCtx) newMem(m *Mem) *Mem {
	mc.next++
	m.id = mc.next
	return m
}

func (mc *MemCtx) Base(name string, s Sort, entry bool) *Mem {
	n := mc.c.DeclareUF(name, []Sort{SAddr}, s)
	m := mc.newMem(&Mem{kind: mBase, S: s, name: n, entry: entry})
	if mc.NextObj != nil {
		m.born = *mc.NextObj
	} else {
		m.born = -1
	}
	return m
}

func (mc *MemCtx) FreshBase(prefix string, s Sort) *Mem {
	mc.c.fresh++
	return mc.Base(fmt.Sprintf("%s!%d", prefix, mc.c.fresh), s, false)
}

func (mc *MemCtx) Store(m *Mem, addr, val *Term) *Mem {
	if val.S != m.S {
		panic(fmt.Sprintf("store sort mismatch: mem %v val %v", m.S, val.S))
	}
	// overwrite of the same address directly on top
	if m.kind == mStore && m.addr == addr {
		m = m.prev
	}
	return mc.newMem(&Mem{kind: mStore, S: m.S, prev: m, addr: addr, val: val})
}

// Copy models copy(dst[dOff:dOff+n], src[sOff:sOff+n]) for the leaf cell reached by path suffix sfx
// below each element (nil for scalar elements). src memory is the pre-state (memmove semantics).
func (mc *MemCtx) Copy(m *Mem, dBase, dOff *Term, src *Mem, sBase, sOff, n *Term, sfx []int) *Mem {
	if n.IsConst() && n.V.Sign() == 0 {
		return m
	}
	return mc.newMem(&Mem{kind: mCopy, S: m.S, prev: m, dBase: dBase, dOff: dOff, src: src, sBase: sBase, sOff: sOff, n: n, sfx: sfx})
}

// ZeroRange: all cells Idx(base, i) (+ suffix) with i in [off, off+n) read as zero. n == nil means every index.
func (mc *MemCtx) ZeroRange(m *Mem, base, off, n *Term, sfx []int) *Mem {
	return mc.newMem(&Mem{kind: mZeroRange, S: m.S, prev: m, dBase: base, dOff: off, n: n, sfx: sfx})
}

func (mc *MemCtx) Havoc(m *Mem, prefix string, pred func(a *Term) *Term) *Mem {
	return mc.newMem(&Mem{kind: mHavoc, S: m.S, prev: m, fresh: mc.FreshBase(prefix, m.S), pred: pred})
}

func (mc *MemCtx) Ite(cond *Term, a, b *Mem) *Mem {
	if a == b || cond.IsTrue() {
		return a
	}
	if cond.IsFalse() {
		return b
	}
	return mc.newMem(&Mem{kind: mIte, S: a.S, cond: cond, prev: a, alt: b})
}

func (mc *MemCtx) zero(s Sort) *Term {
	switch s.K {
	case KBool:
		return mc.c.False
	case KBV:
		return mc.c.BVu(0, s.W)
	case KAddr:
		return mc.c.NilA
	}
	panic("zero sort")
}

// anyIdxSfx in a suffix stands for "any index of an inner array" (only for matching, never for building an address).
const anyIdxSfx = -1 << 40

// elemMatch decomposes address a as  suffix(Idx(base, i))  and returns (condition, i).
func (mc *MemCtx) elemMatch(a, base *Term, sfx []int) (*Term, *Term) {
	c := mc.c
	cond := c.True
	cur := a
	for k := len(sfx) - 1; k >= 0; k-- {
		if sfx[k] == anyIdxSfx { // any element of an inner array (zeroing of nested arrays)
			cond = c.And(cond, c.IsIdx(cur))
			if cond.IsFalse() {
				return cond, nil
			}
			cur = c.IdxBase(cur)
			continue
		}
		cond = c.And(cond, c.FldIdIs(cur, sfx[k]))
		if cond.IsFalse() {
			return cond, nil
		}
		cur = c.FldBase(cur)
	}
	cond = c.And(cond, c.IsIdx(cur))
	if cond.IsFalse() {
		return cond, nil
	}
	cond = c.And(cond, c.Eq(c.IdxBase(cur), base))
	if cond.IsFalse() {
		return cond, nil
	}
	return cond, c.IdxIndex(cur)
}

func (mc *MemCtx) withSuffix(a *Term, sfx []int) *Term {
	for _, f := range sfx {
		a = mc.c.Fld(a, f)
	}
	return a
}

// Read returns the value at address a.
func (mc *MemCtx) Read(m *Mem, a *Term) *Term {
	c := mc.c
	if a.Op == OpIte && a.S.K == KAddr {
		return c.Ite(a.Args[0], mc.Read(m, a.Args[1]), mc.Read(m, a.Args[2]))
	}
	key := [2]int{m.id, a.id}
	if r, ok := mc.cache[key]; ok {
		return r
	}
	var r *Term
	switch m.kind {
	case mBase:
		if rt, k := addrRoot(a); m.entry && k == 1 && rt.K > 0 && !mc.Opaque[rt.K] {
			// a cell of an object allocated during the call that was never written: zero
			// (declared fields are zero-initialised explicitly; this covers ghost cells of new objects)
			r = mc.zero(m.S)
		} else if m.entry {
			r = c.EntryApp(m.name, m.S, a)
		} else {
			if m.S.K == KAddr && m.born >= 0 {
				r = c.BornApp(m.name, m.S, m.born, a)
			} else {
				r = c.App(m.name, m.S, a)
			}
		}
	case mStore:
		eq := c.Eq(a, m.addr)
		if eq.IsTrue() {
			r = m.val
		} else if eq.IsFalse() {
			r = mc.Read(m.prev, a)
		} else {
			r = c.Ite(eq, m.val, mc.Read(m.prev, a))
		}
	case mCopy:
		cond, i := mc.elemMatch(a, m.dBase, m.sfx)
		if !cond.IsFalse() {
			rel := c.Sub(i, m.dOff)
			cond = c.And(cond, c.ULt(rel, m.n))
			if !cond.IsFalse() {
				sv := mc.Read(m.src, mc.withSuffix(c.Idx(m.sBase, c.Add(m.sOff, rel)), m.sfx))
				if cond.IsTrue() {
					r = sv
				} else {
					r = c.Ite(cond, sv, mc.Read(m.prev, a))
				}
			}
		}
		if r == nil {
			r = mc.Read(m.prev, a)
		}
	case mZeroRange:
		cond, i := mc.elemMatch(a, m.dBase, m.sfx)
		if !cond.IsFalse() && m.n != nil {
			cond = c.And(cond, c.ULt(c.Sub(i, m.dOff), m.n))
		}
		if cond.IsTrue() {
			r = mc.zero(m.S)
		} else if cond.IsFalse() {
			r = mc.Read(m.prev, a)
		} else {
			r = c.Ite(cond, mc.zero(m.S), mc.Read(m.prev, a))
		}
	case mHavoc:
		p := m.pred(a)
		if p.IsTrue() {
			r = mc.Read(m.fresh, a)
		} else if p.IsFalse() {
			r = mc.Read(m.prev, a)
		} else {
			r = c.Ite(p, mc.Read(m.fresh, a), mc.Read(m.prev, a))
		}
	case mIte:
		r = c.Ite(m.cond, mc.Read(m.prev, a), mc.Read(m.alt, a))
	}
	mc.cache[key] = r
	return r
}
