package vc

import (
	"bytes"
	"fmt"
	"go/ast"
	"go/constant"
	"go/printer"
	"go/token"
	"go/types"
	"math"
	"math/big"
	"strings"

	"golang.org/x/tools/go/packages"
	"golang.org/x/tools/go/ssa"
)

type ClauseExpr struct {
	Expr   ast.Expr
	Clause *Clause
	bc     *BoundContract
}

func (ce ClauseExpr) Text() string {
	s := strings.Join(strings.Fields(ce.Clause.Text), " ")
	if ce.Clause.Name != "" {
		return "[" + ce.Clause.Name + "] " + s
	}
	return s
}
func (ce ClauseExpr) Pos() token.Pos { return ce.Expr.Pos() }

// BoundContract is a contract resolved against the loaded, type-checked package.
type BoundContract struct {
	FC          *FuncContract
	Pkg         *packages.Package
	Decl        *ast.FuncDecl
	Fn          *ssa.Function // nil for externs without SSA
	Obj         *types.Func
	Sig         *types.Signature // signature of the generated function (receiver folded into params for externs)
	Params      []*types.Var     // receiver first
	Results     []*types.Var
	Locals      map[*types.Var]string
	Requires    []ClauseExpr
	Ensures     []ClauseExpr
	Asserts     []ClauseExpr
	Modifies    []ast.Expr
	ModifiesAll bool
	HasModifies bool
	Inv         map[int][]ClauseExpr
	Dec         map[int]ClauseExpr
	LoopMod     map[int][]ast.Expr
	LoopSplit   map[int][]ast.Expr
	Appends     [][2]ast.Expr
	AppendsAll  [][2]ast.Expr
	MapOps      [][]ast.Expr
	Copies      [][3]ast.Expr
	CallsOnly   []string
	Split       []ast.Expr
	Unroll      map[int]int
	HasLoop     map[int]bool
	Inline      bool
	Pure        bool
	Terminates  bool
	Recovers    bool
	MayPanic    bool
	OnPanic     []ClauseExpr // facts about the state in which a 'panics' callee panics (assumed, over old/new state)
	NoPanic     map[string]bool // callees whose panics are assumed away in this unit ("nopanic F G")
	Partial     bool // a violated precondition makes the function panic (runtime check), it is not undefined behaviour
	Trusted     bool
	Variant     string
	FreshResult map[int]bool
	FreshOrNil  map[int]bool // "freshornil r": r is nil or an object allocated during the call
	LoopExit    map[int][]ClauseExpr   // "loop N: exit P": P holds whenever loop N is left
	UseLemma    map[int][]*ast.FuncLit // proved lemmas assumed at function entry (-1) or at the head of loop N
	Lemma       *specFunc              // this bound contract is a lemma (proved by induction)
	Known       map[string]string // clause label -> known finding id
}

func (bc *BoundContract) info() *types.Info { return bc.Pkg.TypesInfo }

// KeyString identifies the contract: package path, function key and variant.
func (bc *BoundContract) KeyString() string {
	if bc.Lemma != nil {
		return bc.Pkg.PkgPath + ".lemma " + bc.FC.Name
	}
	k := bc.Pkg.PkgPath + "." + bc.FC.Key()
	if bc.Variant != "" {
		k += "[" + bc.Variant + "]"
	}
	return k
}

// ---- spec environment -----------------------------------------------------------------------

type specEnv struct {
	u    *Unit
	bc   *BoundContract
	st   *State // current state
	old  *State // entry state (for old())
	vars map[*types.Var]Val
	fr   *frame // frame whose locals the contract may mention (nil at call sites)
	inOld bool
	head *State // state at the head of the innermost loop iteration (for atHead())
	finalFr *frame // frame of the function under verification, for final(param) in postconditions
	finalSt *State // exit state
	ctx     *ssa.BasicBlock // program point the clause is evaluated at (loop header / block of a call); nil: function exit
}

func (u *Unit) newSpecEnv(bc *BoundContract, st, old *State, args []Val, results []Val) *specEnv {
	env := &specEnv{u: u, bc: bc, st: st, old: old, vars: map[*types.Var]Val{}}
	for i, p := range bc.Params {
		if i < len(args) {
			env.vars[p] = args[i]
		}
	}
	for i, r := range bc.Results {
		if i < len(results) {
			env.vars[r] = results[i]
		}
	}
	return env
}

// specEnv for the function under verification: parameters are entry values, locals are the frame's cells.
func (fr *frame) specEnv(bc *BoundContract, st *State) *specEnv {
	env := fr.u.newSpecEnv(bc, st, fr.entry, fr.params, nil)
	env.fr = fr
	if n := len(fr.heads); n > 0 {
		env.head = fr.heads[n-1]
	}
	return env
}

func (env *specEnv) info() *types.Info { return env.bc.info() }

func (env *specEnv) evalBool(e ast.Expr) *Term {
	v := env.eval(e)
	t, ok := v.(*Term)
	if !ok || t.S.K != KBool {
		panic(fmt.Sprintf("contract expression is not boolean: %s", env.show(e)))
	}
	return t
}

func (env *specEnv) evalTerm(e ast.Expr) *Term {
	v := env.eval(e)
	t, ok := v.(*Term)
	if !ok {
		panic(fmt.Sprintf("contract expression is not scalar: %s", env.show(e)))
	}
	return t
}

func (env *specEnv) show(e ast.Expr) string {
	var b bytes.Buffer
	printer.Fprint(&b, env.u.E.Fset, e)
	return b.String()
}

func (env *specEnv) typeOf(e ast.Expr) types.Type {
	tv, ok := env.info().Types[e]
	if !ok {
		if id, ok2 := e.(*ast.Ident); ok2 {
			if o := env.info().Uses[id]; o != nil {
				return o.Type()
			}
		}
		panic(fmt.Sprintf("no type for contract expression %s", env.show(e)))
	}
	return tv.Type
}

func (u *Unit) constToVal(v constant.Value, t types.Type) Val {
	c := u.C
	if isBool(t) {
		return c.Bool(constant.BoolVal(v))
	}
	if w, _, ok := intWidth(t); ok {
		iv := constant.ToInt(v)
		bi, ok := new(big.Int).SetString(iv.ExactString(), 10)
		if !ok {
			panic("bad integer constant " + v.ExactString())
		}
		return c.BVConst(bi, w)
	}
	if isFloat(t) {
		f, _ := constant.Float64Val(v)
		return c.BVu(math.Float64bits(f), 64)
	}
	if isString(t) {
		return u.strLit(constant.StringVal(v))
	}
	panic(fmt.Sprintf("constant of type %s", t))
}

// marked reports whether the parenthesised expression is the expansion of old(...) / atHead(...):
// the generator writes a marker comment immediately before its opening parenthesis.
func (env *specEnv) marked(p *ast.ParenExpr) string {
	return env.u.E.parenMarks[p.Lparen]
}

func (env *specEnv) eval(e ast.Expr) Val {
	u := env.u
	c := u.C
	if tv, ok := env.info().Types[e]; ok && tv.Value != nil {
		return u.constToVal(tv.Value, tv.Type)
	}
	switch x := e.(type) {
	case *ast.ParenExpr:
		if mk := env.marked(x); strings.HasPrefix(mk, "exit:") {
			// atExit(N, e): e as it was when loop N was left (locals included)
			fr := env.finalFr
			if fr == nil {
				fr = env.fr
			}
			var n int
			fmt.Sscanf(strings.TrimPrefix(mk, "exit:"), "%d", &n)
			if fr == nil || fr.exitStates[n] == nil {
				panic(fmt.Sprintf("atExit(%d, ...): loop %d has not been left on any path here", n, n))
			}
			sub := *env
			sub.st = fr.exitStates[n]
			sub.fr = fr
			sub.inOld = false
			sub.finalFr = nil
			sub.ctx = fr.exitCtx[n]
			return sub.eval(x.X)
		}
		switch env.marked(x) {
		case "final":
			// final(p): the value of parameter p's variable at function exit (parameters are mutable locals)
			id, ok := x.X.(*ast.Ident)
			if !ok || env.finalFr == nil {
				panic("final(x) needs a parameter name and is only valid in ensures")
			}
			a := env.finalFr.findLocal(id.Name, env.typeOf(id))
			if a == nil {
				return env.eval(x.X) // never reassigned / no local: the entry value
			}
			if env.finalFr.isReg[a] {
				if v, ok := env.finalSt.cells[a]; ok {
					return v
				}
				return env.eval(x.X)
			}
			return env.u.load(env.finalSt, env.finalFr.vals[a].(*Term), env.typeOf(id))
		case "head":
			if env.head == nil {
				panic("atHead() used outside a loop body")
			}
			sub := *env
			sub.st = env.head
			return sub.eval(x.X)
		case "old":
			if env.old == nil {
				panic("old() used where no entry state exists")
			}
			sub := *env
			sub.st = env.old
			sub.inOld = true
			return sub.eval(x.X)
		}
		return env.eval(x.X)
	case *ast.Ident:
		return env.ident(x)
	case *ast.BasicLit:
		panic("non-constant literal " + x.Value)
	case *ast.UnaryExpr:
		switch x.Op {
		case token.NOT:
			return c.Not(env.evalBool(x.X))
		case token.SUB:
			return c.Neg(env.evalTerm(x.X))
		case token.XOR:
			return c.BNot(env.evalTerm(x.X))
		case token.ADD:
			return env.eval(x.X)
		case token.AND:
			a, _ := env.addr(x.X)
			return a
		}
	case *ast.BinaryExpr:
		return env.binary(x)
	case *ast.StarExpr:
		p := env.eval(x.X)
		if cr, ok := p.(CellRef); ok {
			return env.st.cells[cr.A]
		}
		return u.load(env.st, p.(*Term), env.typeOf(x))
	case *ast.SelectorExpr:
		return env.selector(x)
	case *ast.IndexExpr:
		return env.index(x)
	case *ast.SliceExpr:
		return env.slice(x)
	case *ast.CallExpr:
		return env.callExpr(x)
	case *ast.TypeAssertExpr:
		if call, ok := x.X.(*ast.CallExpr); ok {
			if id, ok := call.Fun.(*ast.Ident); ok && id.Name == "mapValAtKey" {
				// the value stored under an abstract key, read at the asserted (element) type
				m := env.identity(call.Args[0])
				cell := c.Idx(c.Fld(m, fGhostMap), env.evalTerm(call.Args[1]))
				return u.load(env.st, cell, env.typeOf(x))
			}
		}
		iv := env.eval(x.X).(*IfaceV)
		t := env.typeOf(x)
		switch t.Underlying().(type) {
		case *types.Pointer:
			return iv.Ptr
		}
		return u.load(env.st, iv.Ptr, t)
	}
	panic(fmt.Sprintf("unsupported contract expression %s (%T)", env.show(e), e))
}

func (env *specEnv) ident(x *ast.Ident) Val {
	u := env.u
	obj := env.info().Uses[x]
	if obj == nil {
		obj = env.info().Defs[x]
	}
	switch o := obj.(type) {
	case *types.Var:
		// inside the body (invariants, asserts) a parameter name denotes the parameter's variable as it is
		// now (Go parameters are mutable locals); old(p) and pre/postconditions denote the entry value
		if env.fr != nil && !env.inOld {
			for _, pv := range env.bc.Params {
				if pv == o {
					if a := env.fr.findLocalAt(pv.Name(), pv.Type(), env.ctx); a != nil {
						if env.fr.isReg[a] {
							if v, ok := env.st.cells[a]; ok {
								return v
							}
						} else if at, ok := env.fr.vals[a].(*Term); ok {
							return u.load(env.st, at, pv.Type())
						}
					}
				}
			}
		}
		if v, ok := env.vars[o]; ok {
			return v
		}
		// local of the function under contract (named results are locals inside the body)
		name, ok := env.bc.Locals[o]
		if !ok && env.fr != nil {
			for _, r := range env.bc.Results {
				if r == o {
					name, ok = r.Name(), true
				}
			}
		}
		if ok {
			if env.fr == nil {
				panic("local " + name + " used outside the function body")
			}
			a := env.fr.findLocalAt(name, o.Type(), env.ctx)
			if a == nil {
				panic(StaleContract{fmt.Sprintf("%s: local %q not found in %s", env.bc.FC.Key(), name, env.fr.fn)})
			}
			if env.fr.isReg[a] {
				v, ok := env.st.cells[a]
				if !ok {
					panic(StaleContract{fmt.Sprintf("%s: local %q has no value here", env.bc.FC.Key(), name)})
				}
				return v
			}
			addr, ok := env.fr.vals[a].(*Term)
			if !ok {
				panic(StaleContract{fmt.Sprintf("%s: local %q not allocated yet", env.bc.FC.Key(), name)})
			}
			return u.load(env.st, addr, o.Type())
		}
		// package-level variable
		if o.Parent() == o.Pkg().Scope() {
			g := u.E.globalByObj(o)
			if g != nil {
				return env.loadGlobal(g, o.Type())
			}
		}
		panic(fmt.Sprintf("contract identifier %s is not bound", x.Name))
	case *types.Nil:
		return u.zeroVal(env.typeOf(x))
	}
	panic(fmt.Sprintf("contract identifier %s (%T) not supported", x.Name, obj))
}

type StaleContract struct{ Msg string }

func (s StaleContract) Error() string { return "stale contract: " + s.Msg }

// findLocal resolves a source-level local name to its Alloc. Several locals may share a name (every range loop has
// a "rangeindex", shadowed variables): at a program point ctx the one meant is the declaration that dominates ctx and
// is closest to it (innermost scope); without a program point, the last live one in block order.
func (fr *frame) findLocal(name string, t types.Type) *ssa.Alloc { return fr.findLocalAt(name, t, nil) }

func (fr *frame) findLocalAt(name string, t types.Type, ctx *ssa.BasicBlock) *ssa.Alloc {
	var found *ssa.Alloc
	var cands []*ssa.Alloc
	for _, b := range fr.fn.Blocks {
		for _, in := range b.Instrs {
			if a, ok := in.(*ssa.Alloc); ok && a.Comment == name {
				if types.Identical(a.Type().(*types.Pointer).Elem(), t) {
					cands = append(cands, a)
					if _, live := fr.vals[a]; live || found == nil {
						found = a
					}
				}
			}
		}
	}
	if ctx != nil && len(cands) > 1 {
		// lexical scoping first: among same-named variables, the one whose declaring scope contains the program point
		// (innermost such scope). go/ssa keeps no scopes, go/types does.
		if best := fr.scopedLocal(cands, ctx); best != nil {
			return best
		}
		var best *ssa.Alloc
		for _, a := range cands {
			if !a.Block().Dominates(ctx) {
				continue
			}
			if best == nil || best.Block().Dominates(a.Block()) {
				best = a // deeper in the dominator tree, or later in the same block
			}
		}
		if best != nil {
			return best
		}
	}
	return found
}

// scopedLocal picks, among same-named allocs, the variable visible at the first source position of block ctx.
func (fr *frame) scopedLocal(cands []*ssa.Alloc, ctx *ssa.BasicBlock) *ssa.Alloc {
	if fr.fn.Pkg == nil || fr.fn.Pkg.Pkg == nil {
		return nil
	}
	pos := token.NoPos
	for _, in := range ctx.Instrs {
		if p := in.Pos(); p.IsValid() {
			pos = p
			break
		}
	}
	if !pos.IsValid() {
		return nil
	}
	root := fr.fn.Pkg.Pkg.Scope()
	var best *ssa.Alloc
	var bestScope *types.Scope
	for _, a := range cands {
		if !a.Pos().IsValid() || !a.Block().Dominates(ctx) {
			continue
		}
		sc := root.Innermost(a.Pos())
		if sc == nil || !sc.Contains(pos) || a.Pos() > pos {
			continue
		}
		if bestScope == nil || (bestScope.Contains(sc.Pos()) && bestScope != sc) || (bestScope == sc && a.Pos() > best.Pos()) {
			best, bestScope = a, sc
		}
	}
	return best
}

func (env *specEnv) binary(x *ast.BinaryExpr) Val {
	u := env.u
	c := u.C
	switch x.Op {
	case token.LAND:
		return c.And(env.evalBool(x.X), env.evalBool(x.Y))
	case token.LOR:
		return c.Or(env.evalBool(x.X), env.evalBool(x.Y))
	}
	xt := env.typeOf(x.X)
	if x.Op == token.EQL || x.Op == token.NEQ {
		a, b := env.eval(x.X), env.eval(x.Y)
		// nil comparisons: type of nil side
		if _, isNil := xt.(*types.Basic); isNil && xt.(*types.Basic).Kind() == types.UntypedNil {
			xt = env.typeOf(x.Y)
			a = u.zeroVal(xt)
		} else if yt, ok := env.typeOf(x.Y).(*types.Basic); ok && yt.Kind() == types.UntypedNil {
			b = u.zeroVal(xt)
		}
		// comparison of an interface value with a concrete one: box the concrete side
		yt := env.typeOf(x.Y)
		_, xi := xt.Underlying().(*types.Interface)
		_, yi := yt.Underlying().(*types.Interface)
		if _, bIsIface := b.(*IfaceV); xi && !yi && !bIsIface {
			b = u.makeIface(env.st.clone(), b, yt)
		} else if _, aIsIface := a.(*IfaceV); yi && !xi && !aIsIface {
			a = u.makeIface(env.st.clone(), a, xt)
			xt = yt
		}
		eq := u.valEq(env.st, a, b, xt)
		if x.Op == token.NEQ {
			return c.Not(eq)
		}
		return eq
	}
	a, b := env.evalTerm(x.X), env.evalTerm(x.Y)
	if isBool(xt) {
		switch x.Op {
		case token.AND:
			return c.And(a, b)
		case token.OR:
			return c.Or(a, b)
		}
	}
	if isFloat(xt) {
		// floats in contracts: the same uninterpreted functions the code's float operations become, so a clause and the
		// code agree exactly when they apply the same operations to equal operands
		if m, ok := map[token.Token]string{token.ADD: "fadd", token.SUB: "fsub", token.MUL: "fmul", token.QUO: "fdiv"}[x.Op]; ok {
			u.Trusted["floating-point operations are uninterpreted functions"] = true
			_, rs, _ := scalarKind(env.typeOf(x))
			n := c.DeclareUF(fmt.Sprintf("%s_%d", m, rs.W), []Sort{a.S, b.S}, rs)
			return c.App(n, rs, a, b)
		}
	}
	_, signed, ok := intWidth(xt)
	if !ok {
		panic("contract operator " + x.Op.String() + " on " + xt.String())
	}
	switch x.Op {
	case token.ADD:
		return c.Add(a, b)
	case token.SUB:
		return c.Sub(a, b)
	case token.MUL:
		return c.Mul(a, b)
	case token.QUO:
		if signed {
			return c.SDiv(a, b)
		}
		return c.UDiv(a, b)
	case token.REM:
		if signed {
			return c.SRem(a, b)
		}
		return c.URem(a, b)
	case token.AND:
		return c.BAnd(a, b)
	case token.OR:
		return c.BOr(a, b)
	case token.XOR:
		return c.BXor(a, b)
	case token.AND_NOT:
		return c.BAnd(a, c.BNot(b))
	case token.SHL, token.SHR:
		return u.shiftTerm(x.Op, a, b, signed)
	case token.LSS:
		if signed {
			return c.SLt(a, b)
		}
		return c.ULt(a, b)
	case token.LEQ:
		if signed {
			return c.SLe(a, b)
		}
		return c.ULe(a, b)
	case token.GTR:
		if signed {
			return c.SLt(b, a)
		}
		return c.ULt(b, a)
	case token.GEQ:
		if signed {
			return c.SLe(b, a)
		}
		return c.ULe(b, a)
	}
	panic("contract operator " + x.Op.String())
}

func (env *specEnv) selector(x *ast.SelectorExpr) Val {
	u := env.u
	c := u.C
	sel, ok := env.info().Selections[x]
	if !ok {
		// qualified identifier pkg.Name
		obj := env.info().Uses[x.Sel]
		if v, ok := obj.(*types.Var); ok {
			g := u.E.globalByObj(v)
			if g != nil {
				return env.loadGlobal(g, v.Type())
			}
		}
		panic("unsupported qualified identifier " + env.show(x))
	}
	if sel.Kind() != types.FieldVal {
		panic("method value in contract: " + env.show(x))
	}
	base := env.eval(x.X)
	t := env.typeOf(x.X)
	for _, idx := range sel.Index() {
		if p, ok := t.Underlying().(*types.Pointer); ok {
			a := base.(*Term)
			stt := structOf(p.Elem())
			fa := c.Fld(a, u.E.fieldID(stt, idx))
			t = stt.Field(idx).Type()
			base = u.load(env.st, fa, t)
			continue
		}
		stt := structOf(t)
		sv, ok := base.(*StructV)
		if !ok {
			panic("field selection on " + fmt.Sprintf("%T", base))
		}
		base = sv.F[idx]
		t = stt.Field(idx).Type()
	}
	return base
}

func (env *specEnv) to64(e ast.Expr) *Term {
	t := env.evalTerm(e)
	w, signed, ok := intWidth(env.typeOf(e))
	if !ok {
		panic("index is not an integer: " + env.show(e))
	}
	if w == 64 {
		return t
	}
	if signed {
		return env.u.C.SExt(t, 64)
	}
	return env.u.C.ZExt(t, 64)
}

func (env *specEnv) index(x *ast.IndexExpr) Val {
	u := env.u
	c := u.C
	xt := env.typeOf(x.X)
	if mt, ok := xt.Underlying().(*types.Map); ok {
		// m[k] in a contract: the stored value if present, else the zero value
		m := env.evalTerm(x.X)
		cell := c.Idx(c.Fld(m, fGhostMap), u.keyTerm(env.st, env.eval(x.Index), mt.Key()))
		present := c.And(c.Ne(m, c.NilA), u.readCell(env.st, "bool", c.Fld(cell, fMapPresent)))
		return u.iteVal(present, u.load(env.st, cell, mt.Elem()), u.zeroVal(mt.Elem()))
	}
	i := env.to64(x.Index)
	switch t := xt.Underlying().(type) {
	case *types.Slice:
		sv := env.eval(x.X).(*SliceV)
		return u.load(env.st, c.Idx(sv.Base, c.AddRaw(sv.Off, i)), t.Elem())
	case *types.Basic: // string
		sv := env.eval(x.X).(*SliceV)
		return u.readCell(env.st, "bv8", c.Idx(sv.Base, c.AddRaw(sv.Off, i)))
	case *types.Array:
		if av, ok := env.tryEval(x.X).(*ArrayV); ok {
			if av.Zero {
				return u.zeroVal(t.Elem())
			}
			return u.load(av.St, c.Idx(av.Base, i), t.Elem())
		}
		a, _ := env.addr(x.X)
		return u.load(env.st, c.Idx(a, i), t.Elem())
	case *types.Pointer:
		at := t.Elem().Underlying().(*types.Array)
		a := env.evalTerm(x.X)
		return u.load(env.st, c.Idx(a, i), at.Elem())
	}
	panic("index on " + xt.String())
}

func (env *specEnv) slice(x *ast.SliceExpr) Val {
	u := env.u
	c := u.C
	xt := env.typeOf(x.X)
	var base, off, ln, cp *Term
	str := false
	switch t := xt.Underlying().(type) {
	case *types.Slice:
		sv := env.eval(x.X).(*SliceV)
		base, off, ln, cp = sv.Base, sv.Off, sv.Len, sv.Cap
	case *types.Basic:
		sv := env.eval(x.X).(*SliceV)
		base, off, ln, cp = sv.Base, sv.Off, sv.Len, sv.Len
		str = true
	case *types.Array:
		a, _ := env.addr(x.X)
		base, off = a, c.BVu(0, 64)
		ln = c.BVu(uint64(t.Len()), 64)
		cp = ln
	case *types.Pointer:
		at := t.Elem().Underlying().(*types.Array)
		base, off = env.evalTerm(x.X), c.BVu(0, 64)
		ln = c.BVu(uint64(at.Len()), 64)
		cp = ln
	default:
		panic("slice of " + xt.String())
	}
	lo := c.BVu(0, 64)
	if x.Low != nil {
		lo = env.to64(x.Low)
	}
	hi := ln
	if x.High != nil {
		hi = env.to64(x.High)
	}
	r := &SliceV{Str: str, Base: base, Off: c.AddRaw(off, lo), Len: c.Sub(hi, lo), Cap: c.Sub(cp, lo)}
	if str {
		r.Cap = r.Len
	}
	return r
}

// addr evaluates an lvalue expression to its address.
func (env *specEnv) addr(e ast.Expr) (*Term, types.Type) {
	u := env.u
	c := u.C
	switch x := e.(type) {
	case *ast.ParenExpr:
		return env.addr(x.X)
	case *ast.StarExpr:
		return env.evalTerm(x.X), env.typeOf(x)
	case *ast.Ident:
		obj := env.info().Uses[x]
		if v, ok := obj.(*types.Var); ok {
			name, ok := env.bc.Locals[v]
			if !ok && env.fr != nil {
				for _, r := range env.bc.Results {
					if r == v {
						name, ok = r.Name(), true
					}
				}
			}
			if ok && env.fr != nil {
				a := env.fr.findLocalAt(name, v.Type(), env.ctx)
				if a != nil && !env.fr.isReg[a] {
					at, ok := env.fr.vals[a].(*Term)
					if !ok {
						panic(StaleContract{fmt.Sprintf("%s: local %q is not allocated at this point", env.bc.FC.Key(), name)})
					}
					return at, v.Type()
				}
			}
			if v.Parent() == v.Pkg().Scope() {
				if g := u.E.globalByObj(v); g != nil {
					return u.E.globalAddr(u, g).(*Term), v.Type()
				}
			}
		}
		panic("cannot take the address of " + x.Name + " in a contract")
	case *ast.SelectorExpr:
		sel, ok := env.info().Selections[x]
		if !ok {
			obj := env.info().Uses[x.Sel]
			if v, ok := obj.(*types.Var); ok {
				if g := u.E.globalByObj(v); g != nil {
					return u.E.globalAddr(u, g).(*Term), v.Type()
				}
			}
			panic("address of " + env.show(x))
		}
		t := env.typeOf(x.X)
		var a *Term
		if _, isPtr := t.Underlying().(*types.Pointer); isPtr {
			a = env.evalTerm(x.X)
			t = t.Underlying().(*types.Pointer).Elem()
		} else {
			a, t = env.addr(x.X)
		}
		idx := sel.Index()
		for k, i := range idx {
			stt := structOf(t)
			a = c.Fld(a, u.E.fieldID(stt, i))
			t = stt.Field(i).Type()
			if k < len(idx)-1 {
				if p, isPtr := t.Underlying().(*types.Pointer); isPtr {
					a = u.readCell(env.st, "addr", a)
					t = p.Elem()
				}
			}
		}
		return a, t
	case *ast.IndexExpr:
		xt := env.typeOf(x.X)
		i := env.to64(x.Index)
		switch t := xt.Underlying().(type) {
		case *types.Slice:
			sv := env.eval(x.X).(*SliceV)
			return c.Idx(sv.Base, c.AddRaw(sv.Off, i)), t.Elem()
		case *types.Array:
			a, _ := env.addr(x.X)
			return c.Idx(a, i), t.Elem()
		case *types.Pointer:
			at := t.Elem().Underlying().(*types.Array)
			return c.Idx(env.evalTerm(x.X), i), at.Elem()
		}
	}
	panic("not an lvalue in contract: " + env.show(e))
}

func (env *specEnv) callExpr(x *ast.CallExpr) Val {
	u := env.u
	c := u.C
	info := env.info()
	// conversion
	if tv, ok := info.Types[x.Fun]; ok && tv.IsType() {
		return env.convert(x.Args[0], tv.Type)
	}
	var fobj types.Object
	switch f := x.Fun.(type) {
	case *ast.Ident:
		fobj = info.Uses[f]
	case *ast.SelectorExpr:
		fobj = info.Uses[f.Sel]
	}
	if b, ok := fobj.(*types.Builtin); ok {
		switch b.Name() {
		case "len":
			switch v := env.eval(x.Args[0]).(type) {
			case *SliceV:
				return v.Len
			case *ArrayV:
				return c.BVu(uint64(v.T.Len()), 64)
			case *Term:
				if at, ok := env.typeOf(x.Args[0]).Underlying().(*types.Array); ok {
					return c.BVu(uint64(at.Len()), 64)
				}
				return u.readCell(env.st, "bv64", c.Fld(v, fMapLen))
			}
		case "cap":
			return env.eval(x.Args[0]).(*SliceV).Cap
		}
		panic("builtin " + b.Name() + " in contract")
	}
	fn, ok := fobj.(*types.Func)
	if !ok {
		panic("unsupported call in contract: " + env.show(x))
	}
	name := fn.Name()
	if fn.Pkg() == env.bc.Pkg.Types {
		switch name {
		case "__forall", "__exists":
			lo, hi := env.to64(x.Args[0]), env.to64(x.Args[1])
			fl := x.Args[2].(*ast.FuncLit)
			pv := info.Defs[fl.Type.Params.List[0].Names[0]].(*types.Var)
			if lo.IsConst() && hi.IsConst() && hi.Signed().Int64()-lo.Signed().Int64() <= 256 {
				// small constant range: expand into ground instances
				var parts []*Term
				for i := lo.Signed().Int64(); i < hi.Signed().Int64(); i++ {
					sub := *env
					sub.vars = map[*types.Var]Val{}
					for kk, vv := range env.vars {
						sub.vars[kk] = vv
					}
					sub.vars[pv] = c.BVi(i, 64)
					parts = append(parts, sub.evalBool(fl.Body.List[0].(*ast.ReturnStmt).Results[0]))
				}
				if name == "__forall" {
					return c.And(parts...)
				}
				return c.Or(parts...)
			}
			k := c.BoundVar(pv.Name(), BV(64))
			sub := *env
			sub.vars = map[*types.Var]Val{}
			for kk, vv := range env.vars {
				sub.vars[kk] = vv
			}
			sub.vars[pv] = k
			body := sub.evalBool(fl.Body.List[0].(*ast.ReturnStmt).Results[0])
			rng := c.And(c.SLe(lo, k), c.SLt(k, hi))
			if name == "__forall" {
				return c.Forall([]*Term{k}, c.Implies(rng, body))
			}
			return c.Exists([]*Term{k}, c.And(rng, body))
		case "out":
			return env.ghostOut(x.Args[0])
		case "seq":
			id := env.identity(x.Args[0])
			base := c.Fld(id, fGhostSeq)
			ln := u.readCell(env.st, "bv64", c.Fld(base, fGhostLen))
			u.assumeGlobal(c.ULe(ln, c.BVu(1<<40, 64)))
			return &SliceV{Base: base, Off: c.BVu(0, 64), Len: ln, Cap: ln}
		case "misc":
			return u.readCell(env.st, "bv64", c.Fld(env.identity(x.Args[0]), fGhostMisc))
		case "ghostInt":
			return u.readCell(env.st, "bv64", c.Fld(env.identity(x.Args[0]), env.ghostField(x.Args[1])))
		case "ghostBool":
			return u.readCell(env.st, "bool", c.Fld(env.identity(x.Args[0]), env.ghostField(x.Args[1])))
		case "ghostBytes", "ghostSeq":
			base := c.Fld(env.identity(x.Args[0]), env.ghostField(x.Args[1]))
			ln := u.readCell(env.st, "bv64", c.Fld(base, fGhostLen))
			u.assumeGlobal(c.ULe(ln, c.BVu(1<<56, 64)))
			return &SliceV{Base: base, Off: c.BVu(0, 64), Len: ln, Cap: ln}
		case "held":
			a := env.identity(x.Args[0])
			return u.readCell(env.st, "bool", c.Fld(a, fGhostHeld))
		case "disk": // content class of the file at path (ghost file system)
			return u.readCell(env.st, "bv64", env.diskCell(x.Args[0]))
		case "diskOfFile":
			return u.readCell(env.st, "bv64", c.Idx(c.Fld(c.Obj(-5000000), fGhostMap), u.readCell(env.st, "bv64", c.Fld(env.identity(x.Args[0]), env.ghostFieldName("pathkey")))))
		case "pathKey":
			return u.keyTerm(env.st, env.eval(x.Args[0]), env.typeOf(x.Args[0]))
		case "mapAt":
			return u.load(env.st, env.mapCell(x.Args[0], x.Args[1]), types.NewInterfaceType(nil, nil))
		case "exited": // the execution has left loop N (path condition of the merged loop-exit state)
			fr := env.finalFr
			if fr == nil {
				fr = env.fr
			}
			n := int(constantInt(info.Types[x.Args[0]].Value))
			if fr == nil || fr.exitStates[n] == nil {
				return c.False
			}
			return fr.exitStates[n].pc
		case "mapKeyOf":
			return u.keyTerm(env.st, env.eval(x.Args[1]), env.typeOf(x.Args[1]))
		case "mapKeyPresent", "mapKeyVisited":
			m := env.identity(x.Args[0])
			cell := c.Idx(c.Fld(m, fGhostMap), env.evalTerm(x.Args[1]))
			f := fMapPresent
			if name == "mapKeyVisited" {
				f = fMapVisited
			}
			return c.And(c.Ne(m, c.NilA), u.readCell(env.st, "bool", c.Fld(cell, f)))
		case "__forallk", "__existsk":
			fl := x.Args[0].(*ast.FuncLit)
			pv := info.Defs[fl.Type.Params.List[0].Names[0]].(*types.Var)
			k := c.BoundVar(pv.Name(), BV(64))
			sub := *env
			sub.vars = map[*types.Var]Val{}
			for kk, vv := range env.vars {
				sub.vars[kk] = vv
			}
			sub.vars[pv] = k
			body := sub.evalBool(fl.Body.List[0].(*ast.ReturnStmt).Results[0])
			if name == "__forallk" {
				return c.Forall([]*Term{k}, body)
			}
			return c.Exists([]*Term{k}, body)
		case "mapHas":
			return u.readCell(env.st, "bool", c.Fld(env.mapCell(x.Args[0], x.Args[1]), fMapPresent))
		case "isFresh":
			// the object was allocated during this call (decided syntactically on the address term)
			var a *Term
			switch v := env.eval(x.Args[0]).(type) {
			case *IfaceV:
				a = v.Ptr
			case *Term:
				a = v
			default:
				return c.False
			}
			var fresh func(t *Term) *Term
			fresh = func(t *Term) *Term {
				if t.Op == OpIte {
					return c.Ite(t.Args[0], fresh(t.Args[1]), fresh(t.Args[2]))
				}
				if r, k := addrRoot(t); k == 1 && r.K > 0 {
					return c.True
				}
				return c.False
			}
			return fresh(a)
		case "sameStr": // the same string value (identical header): implies equal contents
			a, b := env.eval(x.Args[0]).(*SliceV), env.eval(x.Args[1]).(*SliceV)
			return c.And(c.Eq(a.Base, b.Base), c.Eq(a.Off, b.Off), c.Eq(a.Len, b.Len))
		case "sameHdr": // two slices with the same header (same backing array, offset and length)
			a, b := env.eval(x.Args[0]).(*SliceV), env.eval(x.Args[1]).(*SliceV)
			return c.And(c.Eq(a.Base, b.Base), c.Eq(a.Off, b.Off), c.Eq(a.Len, b.Len))
		case "distinctObj": // two references (pointers or interface values) denote different objects
			return c.Ne(identOf(env.eval(x.Args[0])), identOf(env.eval(x.Args[1])))
		case "distinctBacking": // the two slices do not share a backing array
			a, b := env.eval(x.Args[0]).(*SliceV), env.eval(x.Args[1]).(*SliceV)
			return c.Or(c.Ne(a.Base, b.Base), c.Eq(a.Cap, c.BVu(0, 64)), c.Eq(b.Cap, c.BVu(0, 64)))
		case "mapValuesNonNil": // every present entry of a pointer-valued Go map is non-nil
			m := env.evalTerm(x.Args[0])
			k := c.BoundVar("key", BV(64))
			cell := c.Idx(c.Fld(m, fGhostMap), k)
			present := u.readCell(env.st, "bool", c.Fld(cell, fMapPresent))
			return c.Forall([]*Term{k}, c.Implies(present, c.Ne(u.readCell(env.st, "addr", cell), c.NilA)))
		case "sameSeq":
			a, b := env.eval(x.Args[0]).(*SliceV), env.eval(x.Args[1]).(*SliceV)
			return c.And(c.Eq(a.Base, b.Base), c.Eq(a.Off, b.Off), c.Eq(a.Len, b.Len))
		case "sameSlice":
			a, b := env.eval(x.Args[0]).(*SliceV), env.eval(x.Args[1]).(*SliceV)
			return c.And(c.Eq(a.Base, b.Base), c.Eq(a.Off, b.Off), c.Eq(a.Len, b.Len))
		case "subslice": // a is a contiguous sub-slice of b (same backing array, within bounds)
			a, b := env.eval(x.Args[0]).(*SliceV), env.eval(x.Args[1]).(*SliceV)
			return c.And(c.Eq(a.Base, b.Base), c.ULe(b.Off, a.Off), c.ULe(c.Add(a.Off, a.Len), c.Add(b.Off, b.Len)))
		case "sliceOff":
			a, b := env.eval(x.Args[0]).(*SliceV), env.eval(x.Args[1]).(*SliceV)
			return c.Sub(a.Off, b.Off)
		case "allocated":
			return c.True
		case "iteInt", "iteInt64", "iteByte":
			return c.Ite(env.evalBool(x.Args[0]), env.evalTerm(x.Args[1]), env.evalTerm(x.Args[2]))
		case "iteStr":
			return u.iteVal(env.evalBool(x.Args[0]), env.eval(x.Args[1]), env.eval(x.Args[2]))
		case "typeIs":
			iv := env.eval(x.Args[0]).(*IfaceV)
			tn := constant.StringVal(info.Types[x.Args[1]].Value)
			id := env.resolveTypeName(tn)
			return c.Eq(iv.Tag, c.BVu(uint64(id), 32))
		}
	}
	// spec function or real function of the program
	var args []Val
	if se, ok := x.Fun.(*ast.SelectorExpr); ok {
		if sel, ok := info.Selections[se]; ok && sel.Kind() == types.MethodVal {
			recv := env.eval(se.X)
			// auto address / deref
			sig := fn.Type().(*types.Signature)
			_, wantPtr := sig.Recv().Type().Underlying().(*types.Pointer)
			_, havePtr := env.typeOf(se.X).Underlying().(*types.Pointer)
			if wantPtr && !havePtr {
				a, _ := env.addr(se.X)
				recv = a
			} else if !wantPtr && havePtr {
				recv = u.load(env.st, recv.(*Term), sig.Recv().Type())
			}
			if len(sel.Index()) > 1 {
				panic("promoted method call in contract: " + env.show(x))
			}
			args = append(args, recv)
		}
	}
	for _, a := range x.Args {
		args = append(args, env.eval(a))
	}
	if sd := u.E.specFuncs[fn]; sd != nil {
		return env.inlineSpec(sd, args)
	}
	sfn := u.E.Prog.FuncValue(fn)
	if sfn == nil || len(sfn.Blocks) == 0 {
		panic("call of " + fn.FullName() + " in contract: no body available")
	}
	// symbolic execution of the real function in specification mode (state changes discarded)
	u.specMode++
	defer func() { u.specMode-- }()
	fr := u.newFrame(sfn, nil)
	fr.bc = u.E.contractFor(sfn)
	vals, out := u.runFunction(fr, env.st.clone(), args)
	if out == nil {
		panic("function " + fn.FullName() + " never returns (in contract)")
	}
	return resultVal(u, sfn.Signature, vals)
}

type specFunc struct {
	bc   *BoundContract
	decl *ast.FuncDecl
	pkg  *packages.Package
	from *ast.FuncDecl // lemma: the start of the induction
	usesDecl *ast.FuncDecl
	uses     []*ast.FuncLit // lemma: earlier lemmas assumed in its proof
}

// assumeLemmas adds, for every "uselemma L(args)" clause attached to the given point (-1: function entry, N: loop N),
// the statement  forall k: L(args, k)  evaluated in state st. L has been proved by induction for every memory.
func (u *Unit) assumeLemmas(bc *BoundContract, fr *frame, st *State, at int, ctx *ssa.BasicBlock) {
	if bc == nil {
		return
	}
	for _, fl := range bc.UseLemma[at] {
		var env *specEnv
		if fr != nil {
			env = fr.specEnv(bc, st)
			env.ctx = ctx
		} else {
			env = u.newSpecEnv(bc, st, st, u.params, nil)
		}
		c := u.C
		pv := bc.info().Defs[fl.Type.Params.List[0].Names[0]].(*types.Var)
		k := c.BoundVar("lk", BV(64))
		sub := *env
		sub.vars = map[*types.Var]Val{}
		for a, b := range env.vars {
			sub.vars[a] = b
		}
		sub.vars[pv] = k
		// the lemma's arguments are evaluated here and now; the lemma itself speaks about the entry memory (as the
		// recursive spec functions it is about do)
		call := fl.Body.List[0].(*ast.ReturnStmt).Results[0].(*ast.CallExpr)
		var lf *types.Func
		if id, ok := call.Fun.(*ast.Ident); ok {
			lf, _ = bc.info().Uses[id].(*types.Func)
		}
		lsd := u.E.specFuncs[lf]
		if lsd == nil || !lsd.bc.FC.Lemma {
			panic("uselemma: " + env.show(call.Fun) + " is not a lemma")
		}
		var largs []Val
		for _, a := range call.Args {
			largs = append(largs, sub.eval(a))
		}
		entry := sub
		entry.st = &State{pc: c.True, cells: map[*ssa.Alloc]Val{}, mems: map[string]*Mem{}}
		entry.fr = nil
		bodyV := entry.inlineSpec(lsd, largs)
		body, ok := bodyV.(*Term)
		if !ok {
			panic("lemma is not boolean")
		}
		u.Trusted["lemma used: "+env.show(fl.Body.List[0].(*ast.ReturnStmt).Results[0])+" for every value of its last argument (proved by induction as a separate unit)"] = true
		u.assume(st, c.Forall([]*Term{k}, body))
	}
}

func (env *specEnv) inlineSpec(sd *specFunc, args []Val) Val {
	u := env.u
	if u.depth > 40 {
		panic("spec function recursion too deep: " + sd.decl.Name.Name)
	}
	u.depth++
	defer func() { u.depth-- }()
	sub := &specEnv{u: u, bc: sd.bc, st: env.st, old: env.old, vars: map[*types.Var]Val{}, fr: nil}
	i := 0
	for _, f := range sd.decl.Type.Params.List {
		for _, n := range f.Names {
			sub.vars[sd.pkg.TypesInfo.Defs[n].(*types.Var)] = args[i]
			i++
		}
	}
	ret, ok := sd.decl.Body.List[0].(*ast.ReturnStmt)
	if !ok || sd.bc.FC.Rec {
		// uninterpreted specification function: an SMT function of the (flattened) argument values
		c := u.C
		var ts []*Term
		var ss []Sort
		add := func(t *Term) { ts = append(ts, t); ss = append(ss, t.S) }
		var flat func(a Val)
		flat = func(a Val) {
			switch x := a.(type) {
			case *Term:
				add(x)
			case *SliceV:
				add(x.Base)
				add(x.Off)
				add(x.Len)
			case *IfaceV:
				add(x.Tag)
				add(x.Ptr)
			case *StructV:
				for _, f := range x.F {
					flat(f)
				}
			case *FuncV:
				add(u.funcTerm(x))
			default:
				panic(fmt.Sprintf("uninterpreted spec function: unsupported argument %T", a))
			}
		}
		for _, a := range args {
			flat(a)
		}
		rt := sd.bc.Sig.Results().At(0).Type()
		var res Val
		ufName := "spec_" + sd.decl.Name.Name
		// A recursive spec function is a function of its arguments and of the ENTRY memory of the unit: its body is
		// always evaluated over the entry state (one symbol, no dependence on later writes). Contracts describe
		// later states through it with old()/entry values plus invariants that link the current state to them.
		if isString(rt) {
			// a string-valued function: three functions giving the header of the result
			nm := ufName
			sv := &SliceV{Str: true,
				Base: c.App(c.DeclareUF(nm+".base", ss, SAddr), SAddr, ts...),
				Off:  c.App(c.DeclareUF(nm+".off", ss, BV(64)), BV(64), ts...),
				Len:  c.App(c.DeclareUF(nm+".len", ss, BV(64)), BV(64), ts...)}
			sv.Cap = sv.Len
			u.assumeSliceWF(nil, sv)
			res = sv
		} else {
			_, rs, ok := scalarKind(rt)
			if !ok {
				panic("uninterpreted spec function must return a scalar or a string")
			}
			name := c.DeclareUF(ufName, ss, rs)
			res = c.App(name, rs, ts...)
		}
		if sd.bc.FC.Rec {
			// recursive definition: the application is unfolded once (definitional instance f(args) == body[args]);
			// applications inside the body are unfolded while fuel remains. The body is evaluated over the entry
			// memory, so f is a function of its arguments (and of the immutable entry state) only.
			if u.recFuel == nil {
				u.recFuel = map[*specFunc]int{}
			}
			if u.recFuel[sd] < 2 {
				u.recFuel[sd]++
				u.Trusted["recursive spec function "+sd.decl.Name.Name+": definitional unfoldings assumed (well-foundedness of the definition is not checked)"] = true
				bsub := *sub
				bsub.st = &State{pc: c.True, cells: map[*ssa.Alloc]Val{}, mems: map[string]*Mem{}}
				bsub.old = nil
				bv := bsub.eval(ret.Results[0])
				u.recFuel[sd]--
				switch r := res.(type) {
				case *Term:
					u.assumeGlobal(c.Eq(r, bv.(*Term)))
				case *SliceV:
					b := bv.(*SliceV)
					u.assumeGlobal(c.And(c.Eq(r.Base, b.Base), c.Eq(r.Off, b.Off), c.Eq(r.Len, b.Len)))
				}
			}
		}
		return res
	}
	return sub.eval(ret.Results[0])
}

func (env *specEnv) convert(arg ast.Expr, to types.Type) Val {
	u := env.u
	c := u.C
	from := env.typeOf(arg)
	v := env.eval(arg)
	fw, fsigned, fint := intWidth(from)
	tw, _, tint := intWidth(to)
	if fint && tint {
		t := v.(*Term)
		if tw <= fw {
			return c.Extract(t, tw-1, 0)
		}
		if fsigned {
			return c.SExt(t, tw)
		}
		return c.ZExt(t, tw)
	}
	if types.Identical(from.Underlying(), to.Underlying()) {
		return v
	}
	if fint && isFloat(to) {
		nm := "i2f"
		if !fsigned {
			nm = "u2f"
		}
		u.Trusted["floating-point operations are uninterpreted functions"] = true
		_, rs, _ := scalarKind(to)
		n := c.DeclareUF(fmt.Sprintf("%s%d_%d", nm, fw, rs.W), []Sort{v.(*Term).S}, rs)
		return c.App(n, rs, v.(*Term))
	}
	if isFloat(from) && tint {
		u.Trusted["floating-point operations are uninterpreted functions"] = true
		n := c.DeclareUF(fmt.Sprintf("f2i_%d_%d", v.(*Term).S.W, tw), []Sort{v.(*Term).S}, BV(tw))
		return c.App(n, BV(tw), v.(*Term))
	}
	panic("conversion " + from.String() + " -> " + to.String() + " in contract")
}

// identity of an object-like value (pointer, interface, or addressable variable)
func (env *specEnv) identity(e ast.Expr) *Term {
	t := env.typeOf(e)
	switch t.Underlying().(type) {
	case *types.Pointer, *types.Map, *types.Chan:
		return env.evalTerm(e)
	case *types.Interface:
		return env.eval(e).(*IfaceV).Ptr
	}
	a, _ := env.addr(e)
	return a
}

func (env *specEnv) ghostOut(e ast.Expr) Val {
	u := env.u
	c := u.C
	id := env.identity(e)
	base := c.Fld(id, fGhostOut)
	ln := u.readCell(env.st, "bv64", c.Fld(base, fGhostLen))
	u.assumeGlobal(c.ULe(ln, c.BVu(1<<56, 64)))
	return &SliceV{Base: base, Off: c.BVu(0, 64), Len: ln, Cap: ln}
}

// region evaluates modifies items.
func (env *specEnv) region(items []ast.Expr, all bool) *Region {
	u := env.u
	c := u.C
	r := NewRegion()
	if all {
		r.All = true
		return r
	}
	for _, it := range items {
		// special forms
		if call, ok := it.(*ast.CallExpr); ok {
			if id, ok := call.Fun.(*ast.Ident); ok {
				switch id.Name {
				case "all":
					r.All = true
					continue
				case "out":
					idt := env.identity(call.Args[0])
					base := c.Fld(idt, fGhostOut)
					lenCell := c.Fld(base, fGhostLen)
					r.setRoot(lenCell); r.add("bv64", func(a *Term) *Term { return c.Eq(a, lenCell) })
					r.addElems(u, base, nil, nil, types.Typ[types.Uint8])
					continue
				case "held":
					idt := env.identity(call.Args[0])
					cell := c.Fld(idt, fGhostHeld)
					r.setRoot(cell); r.add("bool", func(a *Term) *Term { return c.Eq(a, cell) })
					continue
				case "mapAt":
					r.addCell(u, env.mapCell(call.Args[0], call.Args[1]), types.NewInterfaceType(nil, nil))
					continue
				case "anyFld": // the field x.f of EVERY object of x's type (type-based over-approximation); only the types of the argument are used
					var sel *ast.SelectorExpr
					arg := call.Args[0]
					for {
						if p, ok := arg.(*ast.ParenExpr); ok {
							arg = p.X
							continue
						}
						break
					}
					sel, _ = arg.(*ast.SelectorExpr)
					selection := env.info().Selections[sel]
					if sel == nil || selection == nil || selection.Kind() != types.FieldVal || len(selection.Index()) != 1 {
						panic("anyFld needs a direct field selection x.f")
					}
					rt := selection.Recv()
					if pt, ok := rt.Underlying().(*types.Pointer); ok {
						rt = pt.Elem()
					}
					stt := structOf(rt)
					fid := u.E.fieldID(stt, selection.Index()[0])
					ft := stt.Field(selection.Index()[0]).Type()
					for _, lf := range u.leaves(ft, nil) {
						if lf.kind == "array" {
							panic("anyFld over an array field")
						}
						path := lf.path
						r.add(lf.kind, func(x *Term) *Term {
							cond := c.True
							cur := x
							for k := len(path) - 1; k >= 0; k-- {
								cond = c.And(cond, c.FldIdIs(cur, path[k]))
								if cond.IsFalse() {
									return cond
								}
								cur = c.FldBase(cur)
							}
							return c.And(cond, c.FldIdIs(cur, fid))
						})
					}
					continue
				case "anyElems": // the elements of EVERY array with the element type of the given slice (a type-based over-approximation)
					var et types.Type
					switch t := env.typeOf(call.Args[0]).Underlying().(type) {
					case *types.Slice:
						et = t.Elem()
					default:
						panic("anyElems needs a slice-typed argument")
					}
					for _, lf := range u.leaves(et, nil) {
						if lf.kind == "array" {
							panic("anyElems over nested arrays")
						}
						path := lf.path
						r.add(lf.kind, func(x *Term) *Term {
							cond := c.True
							cur := x
							for k := len(path) - 1; k >= 0; k-- {
								cond = c.And(cond, c.FldIdIs(cur, path[k]))
								if cond.IsFalse() {
									return cond
								}
								cur = c.FldBase(cur)
							}
							return c.And(cond, c.IsIdx(cur))
						})
					}
					continue
				case "ghostAll": // the ghost field of that name on every object
					fid := env.ghostField(call.Args[0])
					for _, k := range []string{"bv64", "bool"} {
						r.add(k, func(a *Term) *Term { return c.FldIdIs(a, fid) })
					}
					continue
				case "disk":
					cell := env.diskCell(call.Args[0])
					r.setRoot(cell); r.add("bv64", func(a *Term) *Term { return c.Eq(a, cell) })
					continue
				case "diskOfFile":
					cell := c.Idx(c.Fld(c.Obj(-5000000), fGhostMap), u.readCell(env.st, "bv64", c.Fld(env.identity(call.Args[0]), env.ghostFieldName("pathkey"))))
					r.setRoot(cell); r.add("bv64", func(a *Term) *Term { return c.Eq(a, cell) })
					continue
				case "mapVisitedAll":
					base := c.Fld(env.identity(call.Args[0]), fGhostMap)
					r.add("bool", func(a *Term) *Term {
						return c.And(c.FldIdIs(a, fMapVisited), c.IsIdx(c.FldBase(a)), c.Eq(c.IdxBase(c.FldBase(a)), base))
					})
					continue
				case "mapAll":
					base := c.Fld(env.identity(call.Args[0]), fGhostMap)
					var et types.Type = types.NewInterfaceType(nil, nil)
					if mt, ok := env.typeOf(call.Args[0]).Underlying().(*types.Map); ok {
						et = mt.Elem()
					}
					r.addElems(u, base, nil, nil, et)
					r.setRoot(base)
					r.add("bool", func(a *Term) *Term {
						return c.And(c.FldIdIs(a, fMapPresent), c.IsIdx(c.FldBase(a)), c.Eq(c.IdxBase(c.FldBase(a)), base))
					})
					continue
				case "misc":
					idt := env.identity(call.Args[0])
					cell := c.Fld(idt, fGhostMisc)
					r.setRoot(cell); r.add("bv64", func(a *Term) *Term { return c.Eq(a, cell) })
					continue
				case "ghostInt", "ghostBool":
					cell := c.Fld(env.identity(call.Args[0]), env.ghostField(call.Args[1]))
					kind := "bv64"
					if id.Name == "ghostBool" {
						kind = "bool"
					}
					r.setRoot(cell); r.add(kind, func(a *Term) *Term { return c.Eq(a, cell) })
					continue
				case "ghostBytes", "ghostSeq":
					base := c.Fld(env.identity(call.Args[0]), env.ghostField(call.Args[1]))
					lenCell := c.Fld(base, fGhostLen)
					r.setRoot(lenCell); r.add("bv64", func(a *Term) *Term { return c.Eq(a, lenCell) })
					if id.Name == "ghostBytes" {
						r.addElems(u, base, nil, nil, types.Typ[types.Uint8])
					} else {
						r.addElems(u, base, nil, nil, types.NewInterfaceType(nil, nil))
					}
					continue
				case "seq":
					idt := env.identity(call.Args[0])
					base := c.Fld(idt, fGhostSeq)
					lenCell := c.Fld(base, fGhostLen)
					r.setRoot(lenCell); r.add("bv64", func(a *Term) *Term { return c.Eq(a, lenCell) })
					r.addElems(u, base, nil, nil, types.NewInterfaceType(nil, nil))
					continue
				}
			}
		}
		if se, ok := it.(*ast.SliceExpr); ok {
			sv := env.slice(se).(*SliceV)
			var et types.Type
			switch t := env.typeOf(se.X).Underlying().(type) {
			case *types.Slice:
				et = t.Elem()
			case *types.Array:
				et = t.Elem()
			case *types.Pointer:
				et = t.Elem().Underlying().(*types.Array).Elem()
			}
			r.addElems(u, sv.Base, sv.Off, sv.Len, et)
			continue
		}
		a, t := env.addr(it)
		r.addCell(u, a, t)
	}
	return r
}

// ghostField maps a ghost field name (a string constant) to its pseudo field id.
func (env *specEnv) ghostField(e ast.Expr) int {
	tv := env.info().Types[e]
	if tv.Value == nil {
		panic("ghost field name must be a string constant")
	}
	name := constant.StringVal(tv.Value)
	switch name {
	case "misc":
		return fGhostMisc
	case "held":
		return fGhostHeld
	}
	id, ok := env.u.E.ghostNames[name]
	if !ok {
		id = -(100 + len(env.u.E.ghostNames))
		env.u.E.ghostNames[name] = id
	}
	return id
}

// resolveTypeName resolves "*pkg.Type" / "pkg.Type" / "Type" against the imports of the contract's package.
func (env *specEnv) resolveTypeName(name string) int {
	ptr := strings.HasPrefix(name, "*")
	n := strings.TrimPrefix(name, "*")
	var tp *types.Package
	tn := n
	if i := strings.Index(n, "."); i >= 0 {
		q := n[:i]
		tn = n[i+1:]
		for _, ip := range env.bc.Pkg.Imports {
			if ip.Name == q {
				tp = ip.Types
			}
		}
		if tp == nil {
			for _, ip := range env.u.E.AllPkgs {
				if ip.Name == q {
					tp = ip.Types
				}
			}
		}
	} else {
		tp = env.bc.Pkg.Types
	}
	if tp == nil {
		panic("typeIs: unknown package in " + name)
	}
	o := tp.Scope().Lookup(tn)
	if o == nil {
		panic("typeIs: unknown type " + name)
	}
	var t types.Type = o.Type()
	if ptr {
		t = types.NewPointer(t)
	}
	return env.u.E.typeID(t)
}

// tryEval evaluates e if it denotes a value (not only an lvalue); nil otherwise.
func (env *specEnv) tryEval(e ast.Expr) (v Val) {
	defer func() {
		if r := recover(); r != nil {
			if _, isStr := r.(string); isStr {
				v = nil
				return
			}
			panic(r)
		}
	}()
	switch x := e.(type) {
	case *ast.Ident:
		return env.ident(x)
	case *ast.ParenExpr:
		return env.tryEval(x.X)
	case *ast.CallExpr:
		return env.eval(x)
	}
	return nil
}

// mapCell: the ghost cell of map-like object m (sync.Map, Go map) for the given key.
// Keys are abstracted to 64-bit values: integers by value, pointers and strings through uninterpreted
// functions of the pointer / string header (equal headers are equal keys; nothing is assumed about
// distinct headers with equal contents).
func (env *specEnv) mapCell(m, key ast.Expr) *Term {
	u := env.u
	c := u.C
	id := env.identity(m)
	return c.Idx(c.Fld(id, fGhostMap), u.keyTerm(env.st, env.eval(key), env.typeOf(key)))
}

// mapAll(m) as a region also covers the presence flags of a Go map


func (u *Unit) keyTerm(st *State, v Val, t types.Type) *Term {
	c := u.C
	switch x := v.(type) {
	case *IfaceV:
		if _, isI := t.Underlying().(*types.Interface); isI {
			if x.Tag.IsConst() {
				if dt, ok := u.E.typeByID[int(x.Tag.V.Int64())]; ok {
					switch dt.Underlying().(type) {
					case *types.Pointer:
						return u.keyTerm(st, x.Ptr, dt)
					}
					return u.keyTerm(st, u.load(st, x.Ptr, dt), dt)
				}
			}
			n := c.DeclareUF("ifaceKey", []Sort{BV(32), SAddr}, BV(64))
			return c.App(n, BV(64), x.Tag, x.Ptr)
		}
	case *SliceV:
		// a function of the string header; strings of different length (mod 2^32) get different keys
		n := c.DeclareUF("strKey", []Sort{SAddr, BV(64), BV(64)}, BV(32))
		return c.Concat(c.App(n, BV(32), x.Base, x.Off, x.Len), c.Extract(x.Len, 31, 0))
	case *Term:
		if w, signed, ok := intWidth(t); ok {
			if signed {
				return c.SExt(x, 64)
			}
			_ = w
			return c.ZExt(x, 64)
		}
		if x.S.K == KAddr {
			n := c.DeclareUF("addrKey", []Sort{SAddr}, BV(64))
			return c.App(n, BV(64), x)
		}
	}
	panic(fmt.Sprintf("unsupported map key %T of type %s", v, t))
}

func (env *specEnv) diskCell(path ast.Expr) *Term {
	u := env.u
	c := u.C
	return c.Idx(c.Fld(c.Obj(-5000000), fGhostMap), u.keyTerm(env.st, env.eval(path), env.typeOf(path)))
}

func (env *specEnv) ghostFieldName(name string) int {
	id, ok := env.u.E.ghostNames[name]
	if !ok {
		id = -(100 + len(env.u.E.ghostNames))
		env.u.E.ghostNames[name] = id
	}
	return id
}

// recKinds: the memory kinds read (transitively) by the body of a recursive spec function, found by a probe
// evaluation with arbitrary arguments.
func (u *Unit) recKinds(sd *specFunc) []string {
	if u.E.recKinds == nil {
		u.E.recKinds = map[*specFunc][]string{}
	}
	if ks, ok := u.E.recKinds[sd]; ok {
		if u.probing > 0 && u.readRec != nil {
			for _, k := range ks {
				u.readRec[k] = true
			}
		}
		return ks
	}
	u.E.recKinds[sd] = nil // cycle guard
	savedRec, savedAss, savedAssumed := u.readRec, len(u.assumes), u.assumed
	u.readRec = map[string]bool{}
	u.assumed = map[int]bool{}
	for k, v := range savedAssumed {
		u.assumed[k] = v
	}
	u.probing++
	func() {
		defer func() { u.probing-- }()
		c := u.C
		env := &specEnv{u: u, bc: sd.bc, st: &State{pc: c.True, cells: map[*ssa.Alloc]Val{}, mems: map[string]*Mem{}}, vars: map[*types.Var]Val{}}
		for _, f := range sd.decl.Type.Params.List {
			for _, n := range f.Names {
				v := sd.pkg.TypesInfo.Defs[n].(*types.Var)
				env.vars[v] = u.symVal(u.freshName("probe_"+v.Name()), v.Type(), false)
			}
		}
		env.eval(sd.decl.Body.List[0].(*ast.ReturnStmt).Results[0])
	}()
	var ks []string
	for _, k := range allKinds {
		if u.readRec[k] {
			ks = append(ks, k)
		}
	}
	u.assumes = u.assumes[:savedAss]
	u.assumed = savedAssumed
	u.readRec = savedRec
	if u.readRec != nil {
		for _, k := range ks {
			u.readRec[k] = true
		}
	}
	u.E.recKinds[sd] = ks
	return ks
}

// loadGlobal reads a package-level variable in a contract. A variable declared "global X readonly" (no writer found
// by the scan of its package) has the value it had at entry in every state, so reading it does not make a recursive
// spec function depend on the memory version.
func (env *specEnv) loadGlobal(g *ssa.Global, t types.Type) Val {
	u := env.u
	a := u.E.globalAddr(u, g).(*Term)
	if u.E.roGlobals[g.Pkg.Pkg.Path()+"."+g.Name()] {
		if why := u.E.globalWritten(g); why == "" {
			u.Trusted["read-only global "+g.Pkg.Pkg.Path()+"."+g.Name()+": same value in every state (no writer found by scan of its package)"] = true
			saved := u.readRec
			u.readRec = nil
			v := u.load(&State{pc: u.C.True, cells: map[*ssa.Alloc]Val{}, mems: map[string]*Mem{}}, a, t)
			u.readRec = saved
			return v
		}
	}
	return u.load(env.st, a, t)
}

func constantInt(v constant.Value) int64 {
	if v == nil {
		panic("constant integer expected")
	}
	i, _ := constant.Int64Val(constant.ToInt(v))
	return i
}
