package vc

import (
	"fmt"
	"go/token"
	"go/types"

	"golang.org/x/tools/go/ssa"
)

// Read-only package variables with constant initialisers contribute facts about the entry memory.
// "Read-only" is checked mechanically: no instruction of the defining package stores through the
// variable (or through a slice/element address derived from it) outside the package initialiser.

type globalInit struct {
	elems   map[int64]*ssa.Const // for arrays / slice literals
	n       int64
	isSlice bool
	scalar  *ssa.Const
	fn      *ssa.Function // initialised with a function (var F = pkg.F)
	ok      bool
	why     string
}

func (e *Engine) globalInitOf(g *ssa.Global) *globalInit {
	gi := &globalInit{elems: map[int64]*ssa.Const{}}
	pkg := g.Pkg
	initFn := pkg.Func("init")
	if initFn == nil {
		gi.why = "no init"
		return gi
	}
	if why := e.globalWritten(g); why != "" {
		gi.why = why
		return gi
	}
	// scan the initialiser
	type elemRef struct {
		base ssa.Value
		idx  int64
	}
	refs := map[ssa.Value]elemRef{}
	content := map[ssa.Value]map[int64]*ssa.Const{}
	sizes := map[ssa.Value]int64{}
	for _, b := range initFn.Blocks {
		for _, in := range b.Instrs {
			switch x := in.(type) {
			case *ssa.Alloc:
				if at, ok := x.Type().(*types.Pointer).Elem().Underlying().(*types.Array); ok {
					content[x] = map[int64]*ssa.Const{}
					sizes[x] = at.Len()
				}
			case *ssa.IndexAddr:
				k, ok := x.Index.(*ssa.Const)
				if !ok {
					continue
				}
				if x.X == g {
					refs[x] = elemRef{g, k.Int64()}
				} else if _, ok := content[x.X]; ok {
					refs[x] = elemRef{x.X, k.Int64()}
				}
			case *ssa.Store:
				if r, ok := refs[x.Addr]; ok {
					k, isC := x.Val.(*ssa.Const)
					if !isC {
						if r.base == g {
							gi.why = "non-constant element initialiser"
							return gi
						}
						delete(content, r.base)
						continue
					}
					if r.base == g {
						gi.elems[r.idx] = k
					} else if m, ok := content[r.base]; ok {
						m[r.idx] = k
					}
					continue
				}
				if x.Addr == g {
					switch v := x.Val.(type) {
					case *ssa.Function:
						gi.fn = v
						gi.ok = true
					case *ssa.Const:
						gi.scalar = v
						gi.ok = true
					case *ssa.Slice:
						if m, ok := content[v.X]; ok && v.Low == nil && v.High == nil {
							gi.elems = m
							gi.n = sizes[v.X]
							gi.isSlice = true
							gi.ok = true
						}
					}
				}
			}
		}
	}
	if at, ok := g.Type().(*types.Pointer).Elem().Underlying().(*types.Array); ok {
		gi.n = at.Len()
		gi.ok = true
	}
	return gi
}

// globalWritten returns a reason if some non-init function may write the variable.
func (e *Engine) globalWritten(g *ssa.Global) string {
	var why string
	var check func(fn *ssa.Function)
	derived := func(fn *ssa.Function) {
		// values derived from g whose use as a store target would be a write
		tainted := map[ssa.Value]bool{}
		changed := true
		for changed {
			changed = false
			for _, b := range fn.Blocks {
				for _, in := range b.Instrs {
					v, isVal := in.(ssa.Value)
					for _, op := range in.Operands(nil) {
						if *op == nil {
							continue
						}
						if *op != ssa.Value(g) && !tainted[*op] {
							continue
						}
						switch x := in.(type) {
						case *ssa.Store:
							if x.Addr == *op {
								why = fmt.Sprintf("written in %s", fn)
							}
						case *ssa.UnOp:
							// loading a slice header from g taints the loaded slice (its elements belong to g)
							if x.Op == token.MUL {
								if _, isSl := x.Type().Underlying().(*types.Slice); isSl && !tainted[x] {
									tainted[x] = true
									changed = true
								}
							}
						case *ssa.IndexAddr, *ssa.Slice, *ssa.FieldAddr:
							if isVal && !tainted[v] {
								tainted[v] = true
								changed = true
							}
						case *ssa.Call:
							if bi, ok := x.Call.Value.(*ssa.Builtin); ok && bi.Name() == "copy" && len(x.Call.Args) > 0 && x.Call.Args[0] == *op {
								why = fmt.Sprintf("copy destination in %s", fn)
							}
							if bi, ok := x.Call.Value.(*ssa.Builtin); ok && bi.Name() == "append" && len(x.Call.Args) > 0 && x.Call.Args[0] == *op {
								why = fmt.Sprintf("append target in %s", fn)
							}
						case *ssa.MapUpdate:
							if x.Map == *op {
								why = fmt.Sprintf("map updated in %s", fn)
							}
						}
					}
				}
			}
		}
	}
	seen := map[*ssa.Function]bool{}
	check = func(fn *ssa.Function) {
		if seen[fn] || fn == nil {
			return
		}
		seen[fn] = true
		if fn.Name() != "init" || fn.Signature.Recv() != nil {
			derived(fn)
		}
		for _, af := range fn.AnonFuncs {
			check(af)
		}
	}
	for _, m := range g.Pkg.Members {
		switch x := m.(type) {
		case *ssa.Function:
			if x.Name() == "init" {
				continue
			}
			check(x)
		case *ssa.Type:
			for _, t := range []types.Type{x.Type(), types.NewPointer(x.Type())} {
				ms := e.Prog.MethodSets.MethodSet(t)
				for i := 0; i < ms.Len(); i++ {
					check(e.Prog.MethodValue(ms.At(i)))
				}
			}
		}
	}
	return why
}

func (u *Unit) globalFacts(g *ssa.Global, a *Term) {
	key := g.Pkg.Pkg.Path() + "." + g.Name()
	if !u.E.roGlobals[key] {
		return
	}
	if u.strLitDone[-u.E.globals[g]] {
		return
	}
	u.strLitDone[-u.E.globals[g]] = true
	gi := u.E.globalInitOf(g)
	if !gi.ok {
		u.Warnings = append(u.Warnings, fmt.Sprintf("global %s declared readonly but its contents are not usable: %s", key, gi.why))
		return
	}
	c := u.C
	entry := &State{mems: map[string]*Mem{}}
	t := g.Type().(*types.Pointer).Elem()
	u.Trusted["read-only global "+key+": contents taken from its constant initialiser (no writer found by scan of the package)"] = true
	elemFacts := func(base *Term, et types.Type, n int64) {
		kind, s, ok := scalarKind(et)
		if !ok || n > 4096 {
			return
		}
		for i := int64(0); i < n; i++ {
			var v *Term
			if k, ok := gi.elems[i]; ok {
				v = u.constVal(k).(*Term)
			} else {
				v = u.MC.zero(s)
			}
			u.assumeGlobal(c.Eq(u.readCell(entry, kind, c.Idx(base, c.BVu(uint64(i), 64))), v))
		}
	}
	switch tt := t.Underlying().(type) {
	case *types.Array:
		elemFacts(a, tt.Elem(), tt.Len())
	case *types.Slice:
		if gi.isSlice {
			back := c.Obj(-3000000 - u.E.globals[g])
			u.assumeGlobal(c.Eq(u.readCell(entry, "addr", c.Fld(a, fSliceBase)), back))
			u.assumeGlobal(c.Eq(u.readCell(entry, "bv64", c.Fld(a, fSliceOff)), c.BVu(0, 64)))
			u.assumeGlobal(c.Eq(u.readCell(entry, "bv64", c.Fld(a, fSliceLen)), c.BVu(uint64(gi.n), 64)))
			u.assumeGlobal(c.Eq(u.readCell(entry, "bv64", c.Fld(a, fSliceCap)), c.BVu(uint64(gi.n), 64)))
			elemFacts(back, tt.Elem(), gi.n)
		}
	default:
		if gi.scalar != nil {
			if kind, _, ok := scalarKind(t); ok {
				u.assumeGlobal(c.Eq(u.readCell(entry, kind, a), u.constVal(gi.scalar).(*Term)))
			}
		}
	}
}
