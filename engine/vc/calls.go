package vc

import (
	"fmt"
	"go/token"
	"go/types"
	"strings"

	"golang.org/x/tools/go/ssa"
)

// ---- regions (modifies sets) ----------------------------------------------------------

// Region is a set of memory cells: per kind a list of membership predicates.
type Region struct {
	All   bool
	Items map[string][]func(a *Term) *Term
	Roots map[string][]int // per item: id of the fresh object the item lives in (0: not a fresh object)
	Desc  []string
	curRoot int
}

func NewRegion() *Region {
	return &Region{Items: map[string][]func(a *Term) *Term{}, Roots: map[string][]int{}}
}

func (r *Region) add(kind string, f func(a *Term) *Term) {
	r.Items[kind] = append(r.Items[kind], f)
	r.Roots[kind] = append(r.Roots[kind], r.curRoot)
}

func (r *Region) setRoot(a *Term) {
	r.curRoot = 0
	rt, k := addrRoot(a)
	if k == 1 && rt.K > 0 {
		r.curRoot = rt.K
	}
	// "nil or the fresh object K" (a freshornil result): cells below it exist only in the fresh object
	if k == 0 && rt.Op == OpIte {
		x, y := rt.Args[1], rt.Args[2]
		if x.Op == OpNil {
			x, y = y, x
		}
		if y.Op == OpNil && x.Op == OpObj && x.K > 0 {
			r.curRoot = x.K
		}
	}
}

func (r *Region) Contains(u *Unit, kind string, a *Term) *Term {
	if r.All {
		return u.C.True
	}
	var ds []*Term
	for _, f := range r.Items[kind] {
		ds = append(ds, f(a))
	}
	return u.C.Or(ds...)
}

// addCell adds every leaf cell of a value of type t located at address a.
func (r *Region) addCell(u *Unit, a *Term, t types.Type) {
	r.setRoot(a)
	defer func() { r.curRoot = 0 }()
	for _, lf := range u.leaves(t, nil) {
		if lf.kind == "array" {
			at := lf.t.Underlying().(*types.Array)
			r.addElems(u, u.MC.withSuffix(a, lf.path), nil, nil, at.Elem())
			continue
		}
		addr := u.MC.withSuffix(a, lf.path)
		r.add(lf.kind, func(x *Term) *Term { return u.C.Eq(x, addr) })
	}
}

// addElems adds elements [off, off+n) of the array object at base (n == nil: all indices).
func (r *Region) addElems(u *Unit, base, off, n *Term, elem types.Type) {
	r.setRoot(base)
	defer func() { r.curRoot = 0 }()
	r.addElemsPath(u, base, off, n, elem, nil)
}

// addElemsPath: the leaf cells of elements [off, off+n) of the array at base, including every element of arrays nested
// anywhere inside them (matched through the "any index" suffix marker of elemMatch).
func (r *Region) addElemsPath(u *Unit, base, off, n *Term, elem types.Type, prefix []int) {
	for _, lf := range u.leaves(elem, prefix) {
		if lf.kind == "array" {
			inner := lf.t.Underlying().(*types.Array)
			r.addElemsPath(u, base, off, n, inner.Elem(), append(append([]int{}, lf.path...), anyIdxSfx))
			continue
		}
		path := lf.path
		r.add(lf.kind, func(x *Term) *Term {
			cond, i := u.MC.elemMatch(x, base, path)
			if cond.IsFalse() || n == nil {
				return cond
			}
			return u.C.And(cond, u.C.ULt(u.C.Sub(i, off), n))
		})
	}
}

// havocRegion replaces the contents of region r in state st by unknown values.
func (u *Unit) havocRegion(st *State, r *Region, why string) {
	if r.All {
		for _, k := range allKinds {
			m := u.mem(st, k, kindSort(k))
			st.mems[k] = u.MC.Havoc(m, "H_"+k, func(a *Term) *Term { return u.havocAllPred(a) })
		}
		return
	}
	for k, fs := range r.Items {
		if len(fs) == 0 {
			continue
		}
		fs := fs
		m := u.mem(st, k, kindSort(k))
		st.mems[k] = u.MC.Havoc(m, "H_"+k, func(a *Term) *Term {
			var ds []*Term
			for _, f := range fs {
				ds = append(ds, f(a))
			}
			return u.C.Or(ds...)
		})
	}
}

// havocAllPred: an unknown call may change anything except immutable objects (string literals,
// function objects) .
func (u *Unit) havocAllPred(a *Term) *Term {
	r, k := addrRoot(a)
	if k == 1 && r.K <= -1000000 && r.K > -4500000 {
		return u.C.False
	}
	if k == 1 && r.K > 0 && u.privateObj[r.K] {
		return u.C.False // a local variable that only a deferred closure of this function shares
	}
	return u.C.True
}

// ---- calls -------------------------------------------------------------------------------

func (fr *frame) call(st *State, cc *ssa.CallCommon, instr ssa.Value, pos token.Pos) Val {
	var args []Val
	for _, a := range cc.Args {
		args = append(args, fr.get(a))
	}
	var fv Val
	if cc.Value != nil {
		fv = fr.get(cc.Value)
	}
	return fr.callCommon(st, cc, args, fv, pos, instr)
}

func resultVal(u *Unit, sig *types.Signature, vals []Val) Val {
	switch sig.Results().Len() {
	case 0:
		return nil
	case 1:
		return vals[0]
	}
	return TupleV(vals)
}

func (fr *frame) callCommon(st *State, cc *ssa.CallCommon, args []Val, fv Val, pos token.Pos, instr ssa.Value) Val {
	u := fr.u
	sig := cc.Signature()
	if cc.IsInvoke() {
		recv := fv.(*IfaceV)
		fr.safety(st, "nil", pos, "call", u.C.Ne(recv.Tag, u.C.BVu(0, 32)))
		key := "(" + types.TypeString(types.Unalias(cc.Value.Type()), nil) + ")." + cc.Method.Name()
		full := append([]Val{recv}, args...)
		// a statically known dynamic type: call the concrete method (its model is more precise)
		if recv.Tag.IsConst() {
			if t, ok := u.E.typeByID[int(recv.Tag.V.Int64())]; ok {
				if fn := u.E.Prog.LookupMethod(t, cc.Method.Pkg(), cc.Method.Name()); fn != nil && (u.E.intrinsic(fn) != nil || (u.E.contractFor(fn) != nil && u.E.intrinsics[key] == nil)) {
					// (a call through an interface that has a native model - io.Writer.Write - keeps that model: the concrete type's
					// own contract speaks about its internals, the caller about the abstract byte sequence out(w))
					var rv Val = recv.Ptr
					if _, isPtr := t.Underlying().(*types.Pointer); !isPtr {
						rv = u.load(st, recv.Ptr, t)
					}
					return fr.callStatic(st, fn, append([]Val{rv}, args...), nil, pos)
				}
			}
		}
		if h := u.E.intrinsics[key]; h != nil {
			return h(fr, st, nil, full, pos)
		}
		if bc := u.E.externFor(u.Fn, key); bc != nil {
			return resultVal(u, sig, fr.applyContract(st, bc, full, pos, key))
		}
		// a statically known dynamic type?  (tag constant) -> devirtualise
		if recv.Tag.IsConst() {
			if t, ok := u.E.typeByID[int(recv.Tag.V.Int64())]; ok {
				if fn := u.E.Prog.LookupMethod(t, cc.Method.Pkg(), cc.Method.Name()); fn != nil {
					var rv Val = recv.Ptr
					if _, isPtr := t.Underlying().(*types.Pointer); !isPtr {
						rv = u.load(st, recv.Ptr, t)
					}
					return fr.callStatic(st, fn, append([]Val{rv}, args...), nil, pos)
				}
			}
		}
		return fr.unknownCall(st, key, sig, pos)
	}
	switch f := fv.(type) {
	case *ssa.Builtin:
		return fr.builtin(st, f, cc, args, pos)
	case *FuncV:
		if f.Fn == nil {
			return fr.unknownCall(st, "function value", sig, pos)
		}
		return fr.callStatic(st, f.Fn, args, f.Free, pos)
	case *Term:
		return fr.unknownCall(st, "function value", sig, pos)
	}
	unsupported("call of %T", fv)
	return nil
}

func fnKey(fn *ssa.Function) string {
	s := fn.String()
	return s
}

func (fr *frame) callStatic(st *State, fn *ssa.Function, args []Val, free []Val, pos token.Pos) Val {
	u := fr.u
	sig := fn.Signature
	if h := u.E.intrinsic(fn); h != nil {
		return h(fr, st, fn, args, pos)
	}
	// an assumed contract declared by the CALLER's package on a function of another package takes precedence over
	// that function's own contract: a package may name a dependency's behaviour abstractly (listed as assumed)
	if fn.Pkg != nil && u.Fn != nil && u.Fn.Pkg != nil && fn.Pkg != u.Fn.Pkg {
		if bc := u.E.externFor(u.Fn, fnKey(fn)); bc != nil {
			return resultVal(u, sig, fr.applyContract(st, bc, args, pos, fnKey(fn)))
		}
	}
	if bc := u.E.contractFor(fn); bc != nil && !bc.Inline && !(u.specMode > 0 && bc.Pure) {
		return resultVal(u, sig, fr.applyContract(st, bc, args, pos, fnKey(fn)))
	}
	if bc := u.E.externFor(u.Fn, fnKey(fn)); bc != nil {
		return resultVal(u, sig, fr.applyContract(st, bc, args, pos, fnKey(fn)))
	}
	// inline
	if len(fn.Blocks) > 0 && u.canInline(fn) {
		var res Val
		// inline-with-contract: the callee's preconditions are checked here and its separately proved,
		// quantifier-free postconditions are added as lemmas after the inlined body
		ibc := u.E.contractFor(fn)
		var pre *State
		if ibc != nil && u.specMode == 0 {
			env := u.newSpecEnv(ibc, st, st, args, nil)
			site := u.srcText(fr.fn, pos, "call")
			for _, rq := range ibc.Requires {
				g := env.evalBool(rq.Expr)
				if !fr.recovers() {
					u.oblige(st, "requires@call", fmt.Sprintf("%s requires %s", site, rq.Text()), pos, g)
				}
				if !g.HasQuant() {
					u.assume(st, g)
				}
			}
			pre = st.clone()
		}
		ok := func() (ok bool) {
			saveSt := st.clone()
			saveAss := len(u.assumes)
			saveObl := len(u.Obls)
			defer func() {
				if r := recover(); r != nil {
					if us, isU := r.(Unsupported); isU {
						u.Warnings = append(u.Warnings, fmt.Sprintf("cannot inline %s: %s", fn, us.Msg))
						*st = *saveSt
						u.assumes = u.assumes[:saveAss]
						u.Obls = u.Obls[:saveObl]
						ok = false
						return
					}
					panic(r)
				}
			}()
			sub := u.newFrame(fn, fr)
			sub.freeVal = free
			sub.bc = u.E.contractFor(fn) // inline-with-contract: loop invariants still available
			if sub.bc == nil && fn.Recover != nil && recoveringDefer(fn) != nil && fr.recovers() {
				// an inlined closure that itself defers an unconditional recover (the "handler must not panic again"
				// idiom inside a deferred handler): panics raised inside it are contained by ITS recover - the rest of the
				// closure is skipped and the closure returns normally - not by the enclosing function's
				sub.bc = &BoundContract{Recovers: true, FC: &FuncContract{Name: fn.Name()}}
			}
			vals, out := u.runFunction(sub, st.clone(), args)
			if out == nil {
				// callee never returns normally on this path
				st.pc = u.C.False
				res = u.zeroVal(sig.Results())
				if sig.Results().Len() == 1 {
					res = u.zeroVal(sig.Results().At(0).Type())
				} else if sig.Results().Len() == 0 {
					res = nil
				}
				return true
			}
			*st = *out.clone()
			res = resultVal(u, sig, vals)
			u.Inlined[fn.String()] = true
			if pre != nil {
				post := u.newSpecEnv(ibc, st, pre, args, vals)
				for _, en := range ibc.Ensures {
					if g := post.evalBool(en.Expr); !g.HasQuant() {
						u.assume(st, g)
					}
				}
			}
			return true
		}()
		if ok {
			return res
		}
	}
	return fr.unknownCall(st, fnKey(fn), sig, pos)
}

func (u *Unit) canInline(fn *ssa.Function) bool {
	if len(u.callStack) > 12 {
		return false
	}
	for _, f := range u.callStack {
		if f == fn {
			return false // recursion
		}
	}
	li := u.E.loopInfoOf(fn)
	if len(li.loops) > 0 {
		bc := u.E.contractFor(fn)
		if bc == nil {
			return false
		}
	}
	n := 0
	for _, b := range fn.Blocks {
		n += len(b.Instrs)
	}
	return n < 2500
}

// unknownCall: no contract and not inlinable: everything may change, result arbitrary, may panic.
func (fr *frame) unknownCall(st *State, key string, sig *types.Signature, pos token.Pos) Val {
	u := fr.u
	if u.specMode > 0 {
		unsupported("call of %s in a specification", key)
	}
	u.Trusted["unmodelled call (havoc of all memory, arbitrary result): "+key] = true
	if u.fnRegion != nil && !u.fnRegion.All {
		u.oblige(st, "frame", "unmodelled call "+key, pos, u.C.False)
	}
	for _, lr := range u.loopRegion {
		if lr.region != nil && !lr.region.All {
			u.oblige(st, "loopframe", lr.name+" unmodelled call "+key, pos, u.C.False)
		}
	}
	r := NewRegion()
	r.All = true
	u.havocRegion(st, r, key)
	switch sig.Results().Len() {
	case 0:
		return nil
	case 1:
		return u.symVal(u.freshName("ret"), sig.Results().At(0).Type(), false)
	}
	return u.symVal(u.freshName("ret"), sig.Results(), false)
}

func (fr *frame) builtin(st *State, b *ssa.Builtin, cc *ssa.CallCommon, args []Val, pos token.Pos) Val {
	u := fr.u
	c := u.C
	switch b.Name() {
	case "len":
		switch x := args[0].(type) {
		case *SliceV:
			return x.Len
		case *Term: // map / chan
			return u.readCell(st, "bv64", c.Fld(x, fMapLen))
		case *ArrayV:
			return c.BVu(uint64(x.T.Len()), 64)
		}
	case "cap":
		if x, ok := args[0].(*SliceV); ok {
			return x.Cap
		}
	case "copy":
		dst := args[0].(*SliceV)
		src := args[1].(*SliceV)
		n := c.Ite(c.ULt(src.Len, dst.Len), src.Len, dst.Len)
		et := cc.Args[0].Type().Underlying().(*types.Slice).Elem()
		fr.frameCheckRange(st, dst.Base, dst.Off, n, et, pos)
		u.copyElems(st, dst.Base, dst.Off, st, src.Base, src.Off, n, et)
		return n
	case "append":
		return fr.appendOp(st, cc, args, pos)
	case "ssa:wrapnilchk":
		return args[0]
	case "ssa:deferstack":
		return c.NilA
	case "recover":
		// nil on a normal exit; the (arbitrary, non-nil) panic value while a recovered panic unwinds
		if u.panicking > 0 {
			pv := &IfaceV{Tag: c.Var(u.freshName("panic.tag"), BV(32)), Ptr: c.Var(u.freshName("panic.val"), SAddr)}
			u.assumeGlobal(c.Ne(pv.Tag, c.BVu(0, 32)))
			return pv
		}
		return &IfaceV{Tag: c.BVu(0, 32), Ptr: c.NilA}
	case "print", "println":
		return nil
	case "min", "max":
		if len(args) == 2 {
			a, bb := args[0].(*Term), args[1].(*Term)
			_, signed, ok := intWidth(cc.Args[0].Type())
			if ok {
				lt := c.ULt(a, bb)
				if signed {
					lt = c.SLt(a, bb)
				}
				if b.Name() == "min" {
					return c.Ite(lt, a, bb)
				}
				return c.Ite(lt, bb, a)
			}
		}
	case "delete":
		return fr.mapDelete(st, cc, args, pos)
	}
	unsupported("builtin %s", b.Name())
	return nil
}

func (u *Unit) copyElems(st *State, dBase, dOff *Term, srcSt *State, sBase, sOff, n *Term, et types.Type) {
	for _, lf := range u.leaves(et, nil) {
		if lf.kind == "array" {
			unsupported("copy of array elements")
		}
		m := u.mem(st, lf.kind, kindSort(lf.kind))
		src := u.mem(srcSt, lf.kind, kindSort(lf.kind))
		st.mems[lf.kind] = u.MC.Copy(m, dBase, dOff, src, sBase, sOff, n, lf.path)
	}
}

func (fr *frame) frameCheckRange(st *State, base, off, n *Term, et types.Type, pos token.Pos) {
	u := fr.u
	if u.specMode > 0 {
		return
	}
	if base.Op == OpIte {
		s1 := st.clone()
		s1.pc = u.C.And(st.pc, base.Args[0])
		fr.frameCheckRange(s1, base.Args[1], off, n, et, pos)
		s2 := st.clone()
		s2.pc = u.C.And(st.pc, u.C.Not(base.Args[0]))
		fr.frameCheckRange(s2, base.Args[2], off, n, et, pos)
		return
	}
	freshID := 0
	if r, k := addrRoot(base); k == 1 && r.K > 0 {
		freshID = r.K
	} else if k == 5 {
		return
	}
	check := func(reg *Region, kind, label string, minFresh int) {
		if reg == nil || reg.All {
			return
		}
		if freshID > minFresh {
			return
		}
		// skolem index within the range
		i := u.C.Fresh("wi", BV(64))
		var goals []*Term
		for _, lf := range u.leaves(et, nil) {
			if lf.kind == "array" {
				continue
			}
			goals = append(goals, reg.Contains(u, lf.kind, u.MC.withSuffix(u.C.Idx(base, u.C.Add(off, i)), lf.path)))
		}
		g := u.C.Implies(u.C.ULt(i, n), u.C.And(goals...))
		name := label + " " + u.srcText(fr.fn, pos, "call")
		u.oblige(st, kind, name, pos, g)
	}
	check(u.fnRegion, "frame", "write", 0)
	for _, lr := range u.loopRegion {
		check(lr.region, "loopframe", lr.name+" write", lr.minFresh)
	}
}

func (fr *frame) appendOp(st *State, cc *ssa.CallCommon, args []Val, pos token.Pos) Val {
	u := fr.u
	c := u.C
	s := args[0].(*SliceV)
	t := args[1].(*SliceV)
	et := cc.Args[0].Type().Underlying().(*types.Slice).Elem()
	if t.Len.IsConst() && t.Len.V.Sign() == 0 {
		return s
	}
	newLen := c.Add(s.Len, t.Len)
	fits := c.ULe(newLen, s.Cap)
	// in place
	s1 := st.clone()
	s1.pc = c.And(st.pc, fits)
	if !s1.pc.IsFalse() {
		fr.frameCheckRange(s1, s.Base, c.Add(s.Off, s.Len), t.Len, et, pos)
		u.copyElems(s1, s.Base, c.Add(s.Off, s.Len), st, t.Base, t.Off, t.Len, et)
	}
	r1 := &SliceV{Base: s.Base, Off: s.Off, Len: newLen, Cap: s.Cap}
	// reallocation
	s2 := st.clone()
	s2.pc = c.And(st.pc, c.Not(fits))
	var r2 *SliceV
	if !s2.pc.IsFalse() {
		a := u.newObj()
		ncap := c.Fresh("newcap", BV(64))
		u.assumeGlobal(c.And(c.ULe(newLen, ncap), c.ULe(ncap, c.BVu(maxLen, 64))))
		u.zeroArray(s2, a, et, nil)
		u.copyElems(s2, a, c.BVu(0, 64), st, s.Base, s.Off, s.Len, et)
		u.copyElems(s2, a, s.Len, st, t.Base, t.Off, t.Len, et)
		r2 = &SliceV{Base: a, Off: c.BVu(0, 64), Len: newLen, Cap: ncap}
	} else {
		r2 = r1
	}
	m := u.mergeStates([]*State{s1, s2})
	*st = *m.clone()
	return u.iteVal(fits, r1, r2)
}

// ---- contract application at a call site ---------------------------------------------------

func (fr *frame) applyContract(st *State, bc *BoundContract, args []Val, pos token.Pos, key string) []Val {
	u := fr.u
	c := u.C
	if bc.FC.Extern || bc.Trusted {
		u.Trusted["assumed contract: "+bc.FC.Key()+" ("+bc.FC.File[strings.LastIndex(bc.FC.File, "/repo/")+1:]+")"] = true
	}
	env := u.newSpecEnv(bc, st, st, args, nil)
	site := u.srcText(fr.fn, pos, "call")
	// preconditions
	lax := u.specMode == 0 && bc.Partial && fr.recoverFrame() != nil // violated precondition: panic OR any result
	preAll := c.True
	for _, rq := range bc.Requires {
		g := env.evalBool(rq.Expr)
		preAll = c.And(preAll, g)
		if u.specMode == 0 && (!fr.recovers() || !(bc.MayPanic || bc.Partial)) {
			// (inside a recovering function only a callee that is declared to panic on a violated precondition is exempt)
			u.oblige(st, "requires@call", fmt.Sprintf("%s requires %s", site, rq.Text()), pos, g)
		}
		if u.specMode == 0 && (bc.MayPanic || bc.Partial) {
			if rf := fr.recoverFrame(); rf != nil {
				// a callee marked "panics" / "partial" whose precondition fails panics: that path is caught by the recovering function
				ps := st.clone()
				ps.pc = c.And(st.pc, c.Not(g))
				if !ps.pc.IsFalse() {
					rf.panics = append(rf.panics, ps)
				}
			}
		}
		if !lax {
			u.assume(st, g)
		}
	}
	// modifies ⊆ caller's frames
	reg := env.region(bc.Modifies, bc.ModifiesAll)
	if u.specMode == 0 {
		fr.checkSubRegion(st, reg, site, pos)
	}
	pre := st.clone()
	if bc.MayPanic && u.specMode == 0 && !fr.recovers() {
		if u.BC != nil && u.BC.NoPanic[bc.FC.Name] {
			u.Trusted["assumed in "+u.FnName+": calls of "+bc.FC.Name+" do not panic (nopanic clause)"] = true
		} else {
			u.oblige(st, "safety", "call may panic "+site, pos, c.False)
		}
	}
	u.havocRegion(st, reg, key)
	if bc.MayPanic && u.specMode == 0 {
		if rf := fr.recoverFrame(); rf != nil {
			// the call may panic after any part of its effect: that path is caught by the recovering function;
			// "onpanic P" clauses state what is known of that state (e.g. a ghost counter of invocations)
			// (a fresh boolean separates the two outcomes: merged states select by path condition, so the panicking and
			// the returning continuation must not share one)
			pb := c.Var(u.freshName("panicked_"+bc.FC.Name), SBool)
			ps := st.clone()
			ps.pc = c.And(st.pc, pb)
			st.pc = c.And(st.pc, c.Not(pb))
			if len(bc.OnPanic) > 0 {
				penv := u.newSpecEnv(bc, ps, pre, args, nil)
				for _, op := range bc.OnPanic {
					u.assume(ps, penv.evalBool(op.Expr))
				}
			}
			rf.panics = append(rf.panics, ps)
		}
	}
	// native ghost effects: appends s, x  (s' = s ++ [x], everything else of s unchanged)
	for _, ap := range bc.Appends {
		penv := u.newSpecEnv(bc, st, pre, args, nil)
		sv := penv.eval(ap[0]).(*SliceV)
		xv := penv.eval(ap[1])
		et := penv.typeOf(ap[0]).Underlying().(*types.Slice).Elem()
		lenCell := c.Fld(sv.Base, fGhostLen)
		fr.frameCheck(st, lenCell, types.Typ[types.Int], pos)
		fr.frameCheck(st, c.Idx(sv.Base, sv.Len), et, pos)
		if _, isIface := et.Underlying().(*types.Interface); isIface {
			if _, ok := xv.(*IfaceV); !ok {
				xv = u.makeIface(st, xv, penv.typeOf(ap[1]))
			}
		}
		u.store(st, c.Idx(sv.Base, sv.Len), et, xv)
		u.writeCell(st, "bv64", lenCell, c.Add(sv.Len, c.BVu(1, 64)))
	}
	for _, mo := range bc.MapOps {
		penv := u.newSpecEnv(bc, st, pre, args, nil)
		cell := penv.mapCell(mo[0], mo[1])
		it := types.NewInterfaceType(nil, nil)
		fr.frameCheck(st, cell, it, pos)
		var v Val = &IfaceV{Tag: c.BVu(0, 32), Ptr: c.NilA}
		if len(mo) == 3 {
			v = penv.eval(mo[2])
			if _, ok := v.(*IfaceV); !ok {
				v = u.makeIface(st, v, penv.typeOf(mo[2]))
			}
		}
		u.store(st, cell, it, v)
	}
	for _, ap := range bc.AppendsAll {
		penv := u.newSpecEnv(bc, st, pre, args, nil)
		sv := penv.eval(ap[0]).(*SliceV)
		xs := penv.eval(ap[1]).(*SliceV)
		et := penv.typeOf(ap[0]).Underlying().(*types.Slice).Elem()
		lenCell := c.Fld(sv.Base, fGhostLen)
		fr.frameCheck(st, lenCell, types.Typ[types.Int], pos)
		fr.frameCheckRange(st, sv.Base, sv.Len, xs.Len, et, pos)
		u.copyElems(st, sv.Base, sv.Len, pre, xs.Base, xs.Off, xs.Len, et)
		u.writeCell(st, "bv64", lenCell, c.Add(sv.Len, xs.Len))
	}
	// results
	var results []Val
	sig := bc.Sig
	defer func() {
		// native effect: copies dst, src, n  (dst[0:n] = src[0:n]; n may mention the results)
		for _, cp := range bc.Copies {
			penv := u.newSpecEnv(bc, st, pre, args, results)
			dv := penv.eval(cp[0]).(*SliceV)
			srcEnv := u.newSpecEnv(bc, pre, pre, args, results)
			sv := srcEnv.eval(cp[1]).(*SliceV)
			n := penv.to64(cp[2])
			et := penv.typeOf(cp[0]).Underlying().(*types.Slice).Elem()
			fr.frameCheckRange(st, dv.Base, dv.Off, n, et, pos)
			u.copyElems(st, dv.Base, dv.Off, pre, sv.Base, sv.Off, n, et)
		}
	}()
	for i := 0; i < sig.Results().Len(); i++ {
		rt := sig.Results().At(i).Type()
		var v Val
		if bc.FreshResult[i] {
			a := u.newObj()
			u.MC.Opaque[a.K] = true
			v = a
			if bc.FreshOrNil[i] {
				if _, isPtr := rt.Underlying().(*types.Pointer); isPtr {
					v = c.Ite(c.Var(u.freshName("r_"+bc.FC.Name+".isnil"), SBool), c.NilA, a)
				}
			}
			if _, isIface := rt.Underlying().(*types.Interface); isIface {
				v = &IfaceV{Tag: c.Var(u.freshName("r_"+bc.FC.Name+".tag"), BV(32)), Ptr: a}
			}
			if isString(rt) {
				// strings are immutable: a result string may always be treated as a fresh copy (no aliasing to reason about)
				ln := c.Var(u.freshName("r_"+bc.FC.Name+".len"), BV(64))
				u.assumeGlobal(c.ULe(ln, c.BVu(maxLen, 64)))
				v = &SliceV{Str: true, Base: a, Off: c.BVu(0, 64), Len: ln, Cap: ln}
			}
			if _, isSlice := rt.Underlying().(*types.Slice); isSlice {
				// a freshly allocated backing array of unknown contents, length and capacity
				sv := &SliceV{Base: a, Off: c.BVu(0, 64), Len: c.Var(u.freshName("r_"+bc.FC.Name+".len"), BV(64)), Cap: c.Var(u.freshName("r_"+bc.FC.Name+".cap"), BV(64))}
				u.assumeGlobal(c.And(c.ULe(sv.Len, sv.Cap), c.ULe(sv.Cap, c.BVu(maxLen, 64))))
				v = sv
			}
		} else {
			v = u.symVal(u.freshName("r_"+bc.FC.Name), rt, false)
		}
		if sv, ok := v.(*SliceV); ok && sv.Str && isString(rt) {
			u.externStrs = append(u.externStrs, sv)
		}
		results = append(results, v)
	}
	post := u.newSpecEnv(bc, st, pre, args, results)
	for _, en := range bc.Ensures {
		g := post.evalBool(en.Expr)
		if lax {
			g = c.Implies(preAll, g) // with a violated precondition the call may also return: nothing is known then
		}
		u.assume(st, g)
	}
	return results
}

// checkSubRegion: callee's modifies must lie inside the caller's declared frames.
func (fr *frame) checkSubRegion(st *State, reg *Region, site string, pos token.Pos) {
	u := fr.u
	check := func(outer *Region, kind, label string, minFresh int) {
		if outer == nil || outer.All {
			return
		}
		if reg.All {
			u.oblige(st, kind, label+" callee modifies everything: "+site, pos, u.C.False)
			return
		}
		for k, all := range reg.Items {
			// cells of objects allocated after the frame in question was entered do not belong to it
			var fs []func(a *Term) *Term
			for i, f := range all {
				if rt := reg.Roots[k][i]; rt > minFresh {
					continue
				}
				fs = append(fs, f)
			}
			if len(fs) == 0 {
				continue
			}
			var a *Term
			if kind == "frame" {
				a = u.C.EntryAddrVar(u.freshName("fa")) // function frame: only cells that existed at entry matter
			} else {
				a = u.C.Var(u.freshName("fa"), SAddr)
			}
			var ds []*Term
			for _, f := range fs {
				ds = append(ds, f(a))
			}
			g := u.C.Implies(u.C.Or(ds...), outer.Contains(u, k, a))
			u.oblige(st, kind, fmt.Sprintf("%s callee writes %s within frame: %s", label, k, site), pos, g)
		}
	}
	check(u.fnRegion, "frame", "call", 0)
	for _, lr := range u.loopRegion {
		check(lr.region, "loopframe", lr.name+" call", lr.minFresh)
	}
}

// ---- loops -----------------------------------------------------------------------------------

func (fr *frame) runLoop(l *loop, ins []edge, incoming map[*ssa.BasicBlock][]edge) {
	u := fr.u
	c := u.C
	var sts []*State
	for _, e := range ins {
		sts = append(sts, e.st)
	}
	blocks := fr.loopBlocksRPO(l)
	bc := fr.bc
	var invs []ClauseExpr
	var dec *ClauseExpr
	unroll := 0
	if bc != nil {
		invs = bc.Inv[l.ordinal]
		if d, ok := bc.Dec[l.ordinal]; ok {
			dec = &d
		}
		unroll = bc.Unroll[l.ordinal]
	}
	if unroll > 0 {
		fr.checkNoEscapingRegs(l)
		cur := ins
		for it := 0; ; it++ {
			inc := map[*ssa.BasicBlock][]edge{l.header: cur}
			backs := fr.runBlocks(blocks, inc, l)
			for b, es := range inc {
				if !l.blocks[b] {
					incoming[b] = append(incoming[b], es...)
				}
			}
			var bsts []*State
			for _, e := range backs {
				bsts = append(bsts, e.st)
			}
			if len(bsts) == 0 {
				return
			}
			m := u.mergeStates(bsts)
			if m.pc.IsFalse() {
				return
			}
			if it+1 >= unroll {
				// unwinding assertion: no further iteration is possible
				u.oblige(m, "unwind", fmt.Sprintf("loop %d of %s unwinds within %d iterations", l.ordinal, fr.fn.Name(), unroll), fr.fn.Pos(), c.False)
				return
			}
			// fresh edge from a pseudo predecessor: phi nodes at the header must see the latch
			cur = backs
		}
	}
	if len(invs) == 0 && (bc == nil || !bc.HasLoop[l.ordinal]) {
		// a loop without any clause gets the weakest contract: invariant true, frame inferred from its body. What
		// follows the loop then knows nothing about what the loop assigns: obligations that depend on it fail by name
		u.Warnings = append(u.Warnings, fmt.Sprintf("loop %d of %s has no invariant: invariant true, inferred frame", l.ordinal, fr.fn))
	}
	if len(fr.defers) > 0 {
		// defers registered before the loop are fine; defers inside loops are rejected in execInstr
	}
	st0 := u.mergeStates(sts)
	if st0 == nil || st0.pc.IsFalse() {
		return
	}
	lname := fmt.Sprintf("%s loop %d", fr.fn.Name(), l.ordinal)
	// 1. invariant holds on entry
	u.assumeLemmas(bc, fr, st0, l.ordinal, l.header)
	env0 := fr.specEnv(bc, st0)
	env0.ctx = l.header
	for _, iv := range invs {
		u.oblige(st0, "loop.init", fmt.Sprintf("%s invariant %s", lname, iv.Text()), iv.Pos(), env0.evalBool(iv.Expr))
	}
	// 2. havoc what the loop writes
	st1 := st0.clone()
	fr.havocLoopCells(l, st1)
	var lreg *Region
	if bc != nil && bc.LoopMod[l.ordinal] != nil {
		lreg = env0.region(bc.LoopMod[l.ordinal], false)
	} else {
		lreg = fr.inferLoopRegion(l, st0)
	}
	for b := range l.blocks {
		for _, in := range b.Instrs {
			if nx, ok := in.(*ssa.Next); ok {
				if it, ok := fr.vals[nx.Iter].(*mapIter); ok && !lreg.All {
					base := c.Fld(it.m, fGhostMap)
					lreg.add("bool", func(a *Term) *Term {
						return c.And(c.FldIdIs(a, fMapVisited), c.IsIdx(c.FldBase(a)), c.Eq(c.IdxBase(c.FldBase(a)), base))
					})
				}
			}
		}
	}
	u.havocRegion(st1, lreg, lname)
	for b := range l.blocks {
		for _, in := range b.Instrs {
			if sto, ok := in.(*ssa.Store); ok {
				if a, ok := sto.Addr.(*ssa.Alloc); ok && fr.private[a] && !l.blocks[a.Block()] {
					if at, ok := fr.vals[a].(*Term); ok {
						t := a.Type().(*types.Pointer).Elem()
						u.store(st1, at, t, u.symVal(u.freshName("L_"+a.Comment), t, false))
					}
				}
			}
		}
	}
	u.assumeLemmas(bc, fr, st1, l.ordinal, l.header)
	env1 := fr.specEnv(bc, st1)
	env1.ctx = l.header
	for _, iv := range invs {
		u.assume(st1, env1.evalBool(iv.Expr))
	}
	var m0 *Term
	if dec != nil {
		m0 = env1.evalTerm(dec.Expr)
	}
	// 3. body (once per case of the optional case split)
	for _, in := range l.header.Instrs {
		if _, ok := in.(*ssa.Phi); ok {
			unsupported("phi at loop header in %s", fr.fn)
		}
	}
	var splitTerms []*Term
	if bc != nil && len(bc.LoopSplit[l.ordinal]) > 0 {
		fr.checkNoEscapingRegs(l)
		for _, se := range bc.LoopSplit[l.ordinal] {
			splitTerms = append(splitTerms, env1.evalBool(se))
		}
	}
	st1All := st1
	for _, cs := range u.enumCases(splitTerms) {
	st1 := st1All.clone()
	restore := u.enterCase(st1, cs)
	fr.heads = append(fr.heads, st1.clone())
	u.loopRegion = append(u.loopRegion, &loopRegion{region: lreg, name: lname, minFresh: u.nextObj})
	inc := map[*ssa.BasicBlock][]edge{l.header: {{nil, st1}}}
	nDefers := len(fr.defers)
	backs := fr.runBlocks(blocks, inc, l)
	for _, d := range fr.defers[nDefers:] {
		if d.inLoop {
			for _, e := range backs {
				fr.checkDeferredPre(e.st, d, "requires@iteration-end")
			}
		}
	}
	u.loopRegion = u.loopRegion[:len(u.loopRegion)-1]
	for b, es := range inc {
		if !l.blocks[b] {
			incoming[b] = append(incoming[b], es...)
			// "loop N: exit P": checked on every edge that leaves the loop; the merged exit state is kept for atExit()
			for _, e := range es {
				if bc != nil {
					for _, ex := range bc.LoopExit[l.ordinal] {
						envx := fr.specEnv(bc, e.st)
						envx.ctx = l.header
						g := envx.evalBool(ex.Expr)
						u.oblige(e.st, "loop.exit", fmt.Sprintf("%s exit %s", lname, ex.Text()), ex.Pos(), g)
						u.assume(e.st, g) // checked just above: available to what follows the loop
					}
				}
				if fr.exitStates == nil {
					fr.exitStates = map[int]*State{}
					fr.exitCtx = map[int]*ssa.BasicBlock{}
				}
				if prev := fr.exitStates[l.ordinal]; prev != nil {
					fr.exitStates[l.ordinal] = u.mergeStates([]*State{prev, e.st})
				} else {
					fr.exitStates[l.ordinal] = e.st.clone()
				}
				fr.exitCtx[l.ordinal] = l.header
			}
		}
	}
	// 4. invariant preserved, measure decreases
	for _, e := range backs {
		envb := fr.specEnv(bc, e.st)
		envb.ctx = l.header
		for _, iv := range invs {
			u.oblige(e.st, "loop.preserved", fmt.Sprintf("%s invariant %s", lname, iv.Text()), iv.Pos(), envb.evalBool(iv.Expr))
		}
		if dec != nil {
			m1 := envb.evalTerm(dec.Expr)
			g := c.And(c.SLe(c.BVu(0, m0.S.W), m0), c.SLt(m1, m0))
			u.oblige(e.st, "loop.decreases", fmt.Sprintf("%s decreases %s", lname, dec.Text()), dec.Pos(), g)
		}
	}
	fr.heads = fr.heads[:len(fr.heads)-1]
	restore()
	}
	if dec == nil && bc != nil && bc.Terminates && u.specMode == 0 {
		u.oblige(st1, "loop.decreases", lname+" has no decreases clause", fr.fn.Pos(), c.False)
	}
}

// ---- case splits ----------------------------------------------------------------------------

type caseAssign struct {
	terms []*Term
	vals  []bool
}

func (u *Unit) enumCases(terms []*Term) []caseAssign {
	var ts []*Term
	for _, t := range terms {
		if !t.IsConst() {
			ts = append(ts, t)
		}
	}
	n := len(ts)
	if n > 6 {
		unsupported("case split over more than 6 conditions")
	}
	var out []caseAssign
	for m := 0; m < 1<<n; m++ {
		ca := caseAssign{terms: ts}
		for i := 0; i < n; i++ {
			ca.vals = append(ca.vals, m&(1<<i) == 0)
		}
		out = append(out, ca)
	}
	return out
}

// enterCase restricts st to the case and installs the rewrites that make the case conditions constants
// in every term built while the case is executed. The returned function undoes this.
func (u *Unit) enterCase(st *State, ca caseAssign) func() {
	if len(ca.terms) == 0 {
		return func() {}
	}
	c := u.C
	var conds []*Term
	tag := ""
	for i, t := range ca.terms {
		if ca.vals[i] {
			conds = append(conds, t)
			tag += "T"
		} else {
			conds = append(conds, c.Not(t))
			tag += "F"
		}
	}
	cond := c.And(conds...)
	st.pc = c.And(st.pc, cond)
	oldRw, oldCache, oldTag, oldCond := c.Rewrite, u.MC.cache, u.caseTag, u.caseCond
	rw := map[int]*Term{}
	for k, v := range oldRw {
		rw[k] = v
	}
	for i, t := range ca.terms {
		base := t
		val := ca.vals[i]
		if t.Op == OpNot {
			base, val = t.Args[0], !val
		}
		rw[base.id] = c.Bool(val)
	}
	c.Rewrite = rw
	u.MC.cache = map[[2]int]*Term{}
	if oldTag != "" {
		u.caseTag = oldTag + "/" + tag
	} else {
		u.caseTag = tag
	}
	if oldCond != nil {
		u.caseCond = c.And(oldCond, cond)
	} else {
		u.caseCond = cond
	}
	// re-evaluate register cells holding the split conditions so that the constants propagate
	for k, v := range st.cells {
		if t, ok := v.(*Term); ok {
			if r, ok := rw[t.id]; ok {
				st.cells[k] = r
			} else if t.Op == OpNot {
				if r, ok := rw[t.Args[0].id]; ok {
					st.cells[k] = c.Not(r)
				}
			}
		}
	}
	return func() {
		c.Rewrite, u.MC.cache, u.caseTag, u.caseCond = oldRw, oldCache, oldTag, oldCond
	}
}

func (fr *frame) checkNoEscapingRegs(l *loop) {
	for b := range l.blocks {
		for _, in := range b.Instrs {
			v, ok := in.(ssa.Value)
			if !ok {
				continue
			}
			if refs := v.Referrers(); refs != nil {
				for _, r := range *refs {
					if _, isDbg := r.(*ssa.DebugRef); isDbg {
						continue
					}
					if !l.blocks[r.Block()] {
						if a, isAlloc := v.(*ssa.Alloc); isAlloc && fr.isReg[a] {
							continue
						}
						unsupported("value %s defined in unrolled loop is used outside it", v.Name())
					}
				}
			}
		}
	}
}

// havocLoopCells replaces register cells assigned in the loop by fresh symbols.
func (fr *frame) havocLoopCells(l *loop, st *State) {
	u := fr.u
	seen := map[*ssa.Alloc]bool{}
	for b := range l.blocks {
		for _, in := range b.Instrs {
			if s, ok := in.(*ssa.Store); ok {
				if a, ok := s.Addr.(*ssa.Alloc); ok && fr.isReg[a] && !seen[a] {
					seen[a] = true
					// allocs declared inside the loop are re-initialised each iteration
					if l.blocks[a.Block()] {
						continue
					}
					t := a.Type().(*types.Pointer).Elem()
					old := st.cells[a]
					if osv, ok := old.(*SliceV); ok && !osv.Str && fr.grownOnlyIn(l, a) {
						// a local slice that the loop only grows (append to itself / reslice of itself): at the head of an
						// arbitrary iteration its backing array is the one it had before the loop, or an anonymous array
						// allocated by an earlier iteration (unknown contents, distinct from every other object)
						c := u.C
						nm := u.freshName("L_" + a.Comment)
						la := c.LocalAddrVar(nm + ".newbase")
						u.symAddrs = append(u.symAddrs, la)
						sv := &SliceV{Base: c.Ite(c.Var(nm+".samebase", SBool), osv.Base, la), Off: c.Var(nm+".off", BV(64)), Len: c.Var(nm+".len", BV(64)), Cap: c.Var(nm+".cap", BV(64))}
						u.assumeSliceWF(nil, sv)
						st.cells[a] = sv
						continue
					}
					st.cells[a] = u.symVal(u.freshName("L_"+a.Comment), t, false)
					// remembered for replay: a counterexample in the first iteration is reachable from the inputs
					if ot, ok := old.(*Term); ok {
						if nt, ok := st.cells[a].(*Term); ok && len(u.loopFirst) < 64 {
							u.loopFirst = append(u.loopFirst, [2]*Term{nt, ot})
						}
					}
				}
			}
		}
	}
}

// inferLoopRegion: without a loop modifies clause, stores to locally allocated objects whose address is
// computed outside the loop are tracked per object; anything else havocs all memory.
func (fr *frame) inferLoopRegion(l *loop, st *State) *Region {
	u := fr.u
	r := NewRegion()
	for b := range l.blocks {
		for _, in := range b.Instrs {
			switch x := in.(type) {
			case *ssa.Store:
				if a, ok := x.Addr.(*ssa.Alloc); ok && fr.isReg[a] {
					continue
				}
				if !fr.addStoreTarget(r, l, x.Addr, x.Val.Type()) {
					r.All = true
				}
			case *ssa.Call:
				if bi, ok := x.Call.Value.(*ssa.Builtin); ok {
					switch bi.Name() {
					case "len", "cap", "min", "max", "print", "println":
						continue
					case "copy":
						if !fr.addSliceTarget(r, l, x.Call.Args[0]) {
							r.All = true
						}
						continue
					}
				}
				r.All = true
			case *ssa.Defer, *ssa.Go, *ssa.MapUpdate, *ssa.RunDefers:
				r.All = true
			}
		}
	}
	if r.All {
		u.Warnings = append(u.Warnings, fmt.Sprintf("%s: loop %d writes through unknown addresses; all memory havocked (add a loop modifies clause)", fr.fn.Name(), l.ordinal))
	}
	return r
}

func (fr *frame) definedOutside(l *loop, v ssa.Value) bool {
	switch x := v.(type) {
	case *ssa.Const, *ssa.Global, *ssa.Parameter, *ssa.FreeVar, *ssa.Function:
		return true
	case ssa.Instruction:
		return !l.blocks[x.Block()]
	}
	return false
}

func (fr *frame) addStoreTarget(r *Region, l *loop, addr ssa.Value, t types.Type) bool {
	u := fr.u
	switch x := addr.(type) {
	case *ssa.IndexAddr:
		if _, ok := x.X.Type().Underlying().(*types.Pointer); ok && fr.definedOutside(l, x.X) {
			base, ok := fr.vals[x.X].(*Term)
			if ok {
				r.addElems(u, base, nil, nil, t)
				return true
			}
		}
		if _, ok := x.X.Type().Underlying().(*types.Slice); ok {
			return fr.addSliceTarget(r, l, x.X)
		}
	case *ssa.FieldAddr:
		if fr.definedOutside(l, x.X) {
			if base, ok := fr.vals[x.X].(*Term); ok {
				stt := structOf(x.X.Type().(*types.Pointer).Elem())
				r.addCell(u, u.C.Fld(base, u.E.fieldID(stt, x.Field)), t)
				return true
			}
		}
	default:
		if fr.definedOutside(l, addr) {
			if base, ok := fr.vals[addr].(*Term); ok {
				r.addCell(u, base, t)
				return true
			}
		}
	}
	return false
}

func (fr *frame) addSliceTarget(r *Region, l *loop, s ssa.Value) bool {
	u := fr.u
	// a slice whose backing array is identified outside the loop
	switch x := s.(type) {
	case *ssa.Slice:
		if _, ok := x.X.Type().Underlying().(*types.Pointer); ok && fr.definedOutside(l, x.X) {
			if base, ok := fr.vals[x.X].(*Term); ok {
				at := x.X.Type().Underlying().(*types.Pointer).Elem().Underlying().(*types.Array)
				r.addElems(u, base, nil, nil, at.Elem())
				return true
			}
		}
		return fr.addSliceTarget(r, l, x.X)
	default:
		if fr.definedOutside(l, s) {
			if sv, ok := fr.vals[s].(*SliceV); ok {
				et := s.Type().Underlying().(*types.Slice).Elem()
				r.addElems(u, sv.Base, nil, nil, et)
				return true
			}
		}
		// a load from a register cell not assigned in the loop
		if ld, ok := s.(*ssa.UnOp); ok && ld.Op == token.MUL {
			if a, ok := ld.X.(*ssa.Alloc); ok && fr.isReg[a] && !fr.assignedIn(l, a) {
				// value of the cell at loop entry is what matters; resolved lazily by caller: conservative
				return false
			}
		}
	}
	return false
}

func (fr *frame) assignedIn(l *loop, a *ssa.Alloc) bool {
	for b := range l.blocks {
		for _, in := range b.Instrs {
			if s, ok := in.(*ssa.Store); ok && s.Addr == a {
				return true
			}
		}
	}
	return false
}

// ---- maps (sequential model) -------------------------------------------------------------------
// A Go map value is a reference m; the entry for key k lives in ghost cells at
// cell = Idx(Fld(m, fGhostMap), key(k)): the value at cell (by element type) and a presence flag at
// Fld(cell, fMapPresent). Keys are abstracted as in mapCell (integers by value, strings/pointers through
// uninterpreted functions of their representation). Iteration (range) is not modelled.

func (fr *frame) mapCellOf(st *State, m *Term, key Val, kt types.Type) *Term {
	u := fr.u
	return u.C.Idx(u.C.Fld(m, fGhostMap), u.keyTerm(st, key, kt))
}

func (fr *frame) mapInstr(st *State, in ssa.Instruction) {
	u := fr.u
	c := u.C
	switch x := in.(type) {
	case *ssa.MakeMap:
		a := u.newObj()
		fr.vals[x] = a
	case *ssa.Lookup:
		mt, ok := x.X.Type().Underlying().(*types.Map)
		if !ok {
			unsupported("lookup on %s", x.X.Type())
		}
		m := fr.term(x.X)
		cell := fr.mapCellOf(st, m, fr.get(x.Index), mt.Key())
		present := c.And(c.Ne(m, c.NilA), u.readCell(st, "bool", c.Fld(cell, fMapPresent)))
		val := u.iteVal(present, u.load(st, cell, mt.Elem()), u.zeroVal(mt.Elem()))
		if x.CommaOk {
			fr.vals[x] = TupleV{val, present}
		} else {
			fr.vals[x] = val
		}
	case *ssa.MapUpdate:
		mt := x.Map.Type().Underlying().(*types.Map)
		m := fr.term(x.Map)
		fr.safety(st, "nil", x.Pos(), "", c.Ne(m, c.NilA))
		cell := fr.mapCellOf(st, m, fr.get(x.Key), mt.Key())
		fr.frameCheck(st, cell, mt.Elem(), x.Pos())
		u.store(st, cell, mt.Elem(), fr.get(x.Value))
		u.writeCell(st, "bool", c.Fld(cell, fMapPresent), c.True)
	case *ssa.Range:
		if _, ok := x.X.Type().Underlying().(*types.Map); !ok {
			unsupported("range over %s", x.X.Type())
		}
		m := fr.term(x.X)
		// a new iteration: no key has been yielded yet (ghost visited set of the map, one iteration at a time)
		st.mems["bool"] = u.MC.Havoc(u.mem(st, "bool", SBool), "V_bool", func(a *Term) *Term {
			return c.And(c.FldIdIs(a, fMapVisited), c.IsIdx(c.FldBase(a)), c.Eq(c.IdxBase(c.FldBase(a)), c.Fld(m, fGhostMap)))
		})
		vk := c.BoundVar("vk", BV(64))
		u.assume(st, c.Forall([]*Term{vk}, c.Not(u.readCell(st, "bool", c.Fld(c.Idx(c.Fld(m, fGhostMap), vk), fMapVisited)))))
		fr.vals[x] = &mapIter{m: m, t: x.X.Type().Underlying().(*types.Map)}
	case *ssa.Next:
		it, ok := fr.get(x.Iter).(*mapIter)
		if !ok {
			unsupported("next on a non-map iterator")
		}
		// map iteration (the map is not modified while it is iterated: checked by the loop frame): each step yields a
		// present entry that has not been yielded yet, in an unspecified order, and the iteration stops only when
		// every present entry has been yielded (ghost visited set on the map)
		u.Trusted["map iteration is modelled as: every present entry is yielded exactly once, in an unspecified order (ghost visited set)"] = true
		okT := c.Fresh("next.ok", SBool)
		key := u.symVal(u.freshName("next.key"), it.t.Key(), false)
		cell := fr.mapCellOf(st, it.m, key, it.t.Key())
		vis := c.Fld(cell, fMapVisited)
		u.assume(st, c.Implies(okT, c.And(c.Ne(it.m, c.NilA), u.readCell(st, "bool", c.Fld(cell, fMapPresent)), c.Not(u.readCell(st, "bool", vis)))))
		ak := c.BoundVar("ak", BV(64))
		acell := c.Idx(c.Fld(it.m, fGhostMap), ak)
		u.assume(st, c.Implies(c.Not(okT), c.Forall([]*Term{ak}, c.Implies(c.And(c.Ne(it.m, c.NilA), u.readCell(st, "bool", c.Fld(acell, fMapPresent))), u.readCell(st, "bool", c.Fld(acell, fMapVisited))))))
		val := u.load(st, cell, it.t.Elem())
		u.writeCell(st, "bool", vis, c.Or(okT, u.readCell(st, "bool", vis)))
		fr.vals[x] = TupleV{okT, key, val}
	default:
		unsupported("map instruction %T", in)
	}
}

type mapIter struct {
	m *Term
	t *types.Map
}

func (fr *frame) mapDelete(st *State, cc *ssa.CallCommon, args []Val, pos token.Pos) Val {
	u := fr.u
	c := u.C
	mt := cc.Args[0].Type().Underlying().(*types.Map)
	m := args[0].(*Term)
	cell := fr.mapCellOf(st, m, args[1], mt.Key())
	fr.frameCheck(st, cell, mt.Elem(), pos)
	// delete on a nil map is a no-op: the flag write is harmless there (lookups test m != nil)
	u.writeCell(st, "bool", c.Fld(cell, fMapPresent), c.False)
	return nil
}

// grownOnlyIn: every store to the register-like slice variable a inside loop l assigns append(a, ...), a reslice of a,
// or a freshly made slice.
func (fr *frame) grownOnlyIn(l *loop, a *ssa.Alloc) bool {
	if _, ok := a.Type().(*types.Pointer).Elem().Underlying().(*types.Slice); !ok {
		return false
	}
	isSelf := func(v ssa.Value) bool {
		ld, ok := v.(*ssa.UnOp)
		return ok && ld.Op == token.MUL && ld.X == a
	}
	for b := range l.blocks {
		for _, in := range b.Instrs {
			s, ok := in.(*ssa.Store)
			if !ok || s.Addr != a {
				continue
			}
			switch v := s.Val.(type) {
			case *ssa.Call:
				bi, ok := v.Call.Value.(*ssa.Builtin)
				if !ok || bi.Name() != "append" || !isSelf(v.Call.Args[0]) {
					return false
				}
			case *ssa.Slice:
				if !isSelf(v.X) {
					return false
				}
			case *ssa.MakeSlice:
			default:
				return false
			}
		}
	}
	return true
}
