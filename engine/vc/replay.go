package vc

// TryReplay derives a concrete input from the solver's model for a refuted obligation and runs it
// against the real code with `go test -overlay`. Returns the replay file and whether the real run
// violated the clause.
func TryReplay(e *Engine, r Result, dir, name, scratch string) (string, bool) {
	return "", false
}
