package vc

import (
	"go/ast"
	"go/printer"
	"golang.org/x/tools/go/ssa"
	"bytes"
	"context"
	"fmt"
	"go/types"
	"os"
	"os/exec"
	"path/filepath"
	"regexp"
	"strconv"
	"strings"
	"time"
)

// Replay: from the solver's model of a refuted obligation build concrete arguments (scalars, byte slices,
// pointers to structs, slices of pointers, one level of interfaces is not attempted), write an in-package
// Go test that calls the real function, and run it against /repo through `go test -overlay`.
// A safety obligation counts as reproduced when the real call panics.

type cval struct {
	kind   string // int, bool, bytes, string, ptr, nil, struct, slice, zero
	typ    types.Type
	i      string // integer literal
	b      bool
	bytes  []byte
	fields []*cval
	elems  []*cval
	pointee *cval
}

type concretizer struct {
	u      *Unit
	script string // base query (sat)
	fixed  []string // (assert (= term value)) accumulated
	dir    string
	nq     int
	budget int
	deadline time.Time // no further solver call after this point: the candidate input stays partly unconstrained
}

func (cz *concretizer) values(terms []*Term) ([]string, bool) {
	if len(terms) == 0 {
		return nil, true
	}
	u := cz.u
	var sb strings.Builder
	// strip the trailing (check-sat) of the base script and append fixed values
	base := cz.script
	if i := strings.LastIndex(base, "(check-sat)"); i >= 0 {
		base = base[:i]
	}
	// declarations the base query did not need but the requested terms may
	var extra strings.Builder
	for _, n := range u.C.declOrd {
		d := u.C.Decls[n]
		if !strings.Contains(base, d) {
			extra.WriteString(d)
			extra.WriteByte('\n')
		}
	}
	if k := strings.Index(base, Prelude); k >= 0 {
		base = base[:k+len(Prelude)] + extra.String() + base[k+len(Prelude):]
	}
	sb.WriteString(base)
	for _, f := range cz.fixed {
		sb.WriteString(f)
		sb.WriteByte('\n')
	}
	sb.WriteString("(check-sat)\n(get-value (")
	var printed []string
	for _, t := range terms {
		var tb strings.Builder
		u.C.print(&tb, t, nil, 0)
		printed = append(printed, tb.String())
		sb.WriteString(tb.String())
		sb.WriteByte(' ')
	}
	sb.WriteString("))\n")
	cz.nq++
	if !cz.deadline.IsZero() && time.Now().After(cz.deadline) {
		return nil, false
	}
	file := filepath.Join(cz.dir, fmt.Sprintf("concretize%d.smt2", cz.nq))
	os.WriteFile(file, []byte(sb.String()), 0o644)
	defer os.Remove(file)
	ctx, cancel := context.WithTimeout(context.Background(), 12*time.Second)
	defer cancel()
	out, _ := exec.CommandContext(ctx, "z3-new", "-T:8", file).CombinedOutput()
	s := string(out)
	if !strings.HasPrefix(strings.TrimSpace(s), "sat") {
		return nil, false
	}
	// parse ((term value) (term value) ...)
	body := s[strings.Index(s, "sat")+3:]
	vals := parseValues(body, len(terms))
	if vals == nil {
		return nil, false
	}
	for i, v := range vals {
		cz.fixed = append(cz.fixed, fmt.Sprintf("(assert (= %s %s))", printed[i], v))
	}
	return vals, true
}

// tryConstrain adds the constraint to the fixed set if the query stays satisfiable.
func (cz *concretizer) tryConstrain(f *Term) bool {
	var tb strings.Builder
	cz.u.C.print(&tb, f, nil, 0)
	as := "(assert " + tb.String() + ")"
	cz.fixed = append(cz.fixed, as)
	if _, ok := cz.values([]*Term{cz.u.C.True}); ok {
		// values() appended a trivial fixing assert for "true"; harmless
		return true
	}
	cz.fixed = cz.fixed[:len(cz.fixed)-1]
	return false
}

// parseValues extracts the value s-expressions of a get-value answer.
func parseValues(s string, n int) []string {
	s = strings.TrimSpace(s)
	if !strings.HasPrefix(s, "(") {
		return nil
	}
	// tokenise into top-level pairs
	depth := 0
	var pairs []string
	start := -1
	for i := 0; i < len(s); i++ {
		switch s[i] {
		case '(':
			depth++
			if depth == 2 {
				start = i
			}
		case ')':
			if depth == 2 && start >= 0 {
				pairs = append(pairs, s[start:i+1])
				start = -1
			}
			depth--
		case '|':
			j := strings.IndexByte(s[i+1:], '|')
			if j >= 0 {
				i += j + 1
			}
		}
	}
	if len(pairs) != n {
		return nil
	}
	var out []string
	for _, p := range pairs {
		// (term value): value is the last balanced expression
		p = strings.TrimSpace(p[1 : len(p)-1])
		v := lastSexp(p)
		out = append(out, v)
	}
	return out
}

func lastSexp(p string) string {
	p = strings.TrimSpace(p)
	if strings.HasSuffix(p, ")") {
		depth := 0
		for i := len(p) - 1; i >= 0; i-- {
			if p[i] == ')' {
				depth++
			} else if p[i] == '(' {
				depth--
				if depth == 0 {
					return p[i:]
				}
			}
		}
	}
	i := strings.LastIndexAny(p, " \t\n")
	return p[i+1:]
}

func bvToInt(v string, signed bool, w int) string {
	v = strings.TrimSpace(v)
	var n uint64
	switch {
	case strings.HasPrefix(v, "#x"):
		n, _ = strconv.ParseUint(v[2:], 16, 64)
	case strings.HasPrefix(v, "#b"):
		n, _ = strconv.ParseUint(v[2:], 2, 64)
	default:
		return "0"
	}
	if signed && w < 64 && n&(1<<uint(w-1)) != 0 {
		return strconv.FormatInt(int64(n)-(1<<uint(w)), 10)
	}
	if signed && w == 64 {
		return strconv.FormatInt(int64(n), 10)
	}
	return strconv.FormatUint(n, 10)
}

// build concretizes a value of type t located in the entry state.
func (cz *concretizer) build(v Val, t types.Type, depth int) *cval {
	u := cz.u
	c := u.C
	cz.budget--
	if cz.budget < 0 || depth > 5 {
		return &cval{kind: "zero", typ: t}
	}
	entry := &State{pc: c.True, mems: map[string]*Mem{}}
	switch x := v.(type) {
	case *Term:
		if w, signed, ok := intWidth(t); ok {
			vals, ok := cz.values([]*Term{x})
			if !ok {
				return &cval{kind: "zero", typ: t}
			}
			return &cval{kind: "int", typ: t, i: bvToInt(vals[0], signed, w)}
		}
		if isBool(t) {
			vals, ok := cz.values([]*Term{x})
			if !ok {
				return &cval{kind: "zero", typ: t}
			}
			return &cval{kind: "bool", typ: t, b: strings.TrimSpace(vals[0]) == "true"}
		}
		if pt, ok := t.Underlying().(*types.Pointer); ok {
			vals, ok := cz.values([]*Term{c.Eq(x, c.NilA)})
			if !ok || strings.TrimSpace(vals[0]) == "true" {
				return &cval{kind: "nil", typ: t}
			}
			if _, isStruct := pt.Elem().Underlying().(*types.Struct); isStruct {
				pv := u.load(entry, x, pt.Elem())
				return &cval{kind: "ptr", typ: t, pointee: cz.build(pv, pt.Elem(), depth+1)}
			}
			if _, isArr := pt.Elem().Underlying().(*types.Array); isArr {
				return &cval{kind: "zero", typ: t}
			}
			pv := u.load(entry, x, pt.Elem())
			return &cval{kind: "ptr", typ: t, pointee: cz.build(pv, pt.Elem(), depth+1)}
		}
		return &cval{kind: "zero", typ: t}
	case *SliceV:
		// prefer small inputs: constrain the length as far as the model allows
		for _, k := range []uint64{8, 64, 1024, 65535} {
			if cz.tryConstrain(c.ULe(x.Len, c.BVu(k, 64))) {
				break
			}
		}
		vals, ok := cz.values([]*Term{x.Len})
		if !ok {
			return &cval{kind: "zero", typ: t}
		}
		n, _ := strconv.ParseInt(bvToInt(vals[0], false, 64), 10, 64)
		if n > 70000 {
			return &cval{kind: "toolarge", typ: t}
		}
		var et types.Type = types.Typ[types.Uint8]
		if st, ok := t.Underlying().(*types.Slice); ok {
			et = st.Elem()
		}
		if b, ok := et.Underlying().(*types.Basic); ok && b.Kind() == types.Uint8 {
			var terms []*Term
			lim := n
			if lim > 2048 {
				lim = 2048
			}
			for i := int64(0); i < lim; i++ {
				terms = append(terms, u.readCell(entry, "bv8", c.Idx(x.Base, c.AddRaw(x.Off, c.BVu(uint64(i), 64)))))
			}
			bs := make([]byte, n)
			if bv, ok := cz.values(terms); ok {
				for i := range bv {
					k, _ := strconv.ParseUint(bvToInt(bv[i], false, 8), 10, 8)
					bs[i] = byte(k)
				}
			}
			kind := "bytes"
			if x.Str {
				kind = "string"
			}
			return &cval{kind: kind, typ: t, bytes: bs}
		}
		if n > 64 {
			return &cval{kind: "toolarge", typ: t}
		}
		cv := &cval{kind: "slice", typ: t}
		for i := int64(0); i < n; i++ {
			ev := u.load(entry, c.Idx(x.Base, c.AddRaw(x.Off, c.BVu(uint64(i), 64))), et)
			cv.elems = append(cv.elems, cz.build(ev, et, depth+1))
		}
		return cv
	case *StructV:
		cv := &cval{kind: "struct", typ: t}
		for i, f := range x.F {
			cv.fields = append(cv.fields, cz.build(f, x.T.Field(i).Type(), depth+1))
		}
		return cv
	}
	if iv, ok := v.(*IfaceV); ok && iv != nil {
		if types.TypeString(types.Unalias(t), nil) == "io.Writer" {
			return &cval{kind: "writer", typ: t}
		}
	}
	return &cval{kind: "zero", typ: t}
}

func (cv *cval) goExpr(q types.Qualifier) string {
	ts := types.TypeString(cv.typ, q)
	switch cv.kind {
	case "int":
		return fmt.Sprintf("%s(%s)", ts, cv.i)
	case "bool":
		return fmt.Sprintf("%v", cv.b)
	case "nil":
		return "(" + ts + ")(nil)"
	case "writer":
		return "io.Writer(new(govcBuf))"
	case "bytes":
		var sb strings.Builder
		sb.WriteString(ts + "{")
		for i, b := range cv.bytes {
			if i > 0 {
				sb.WriteByte(',')
			}
			fmt.Fprintf(&sb, "%d", b)
		}
		sb.WriteString("}")
		return sb.String()
	case "string":
		return fmt.Sprintf("%s(%q)", ts, string(cv.bytes))
	case "ptr":
		if cv.pointee.kind == "struct" {
			return "&" + cv.pointee.goExpr(q)
		}
		return fmt.Sprintf("func() %s { v := %s; return &v }()", ts, cv.pointee.goExpr(q))
	case "struct":
		st := cv.typ.Underlying().(*types.Struct)
		var parts []string
		for i, f := range cv.fields {
			if f.kind == "zero" || f.kind == "toolarge" {
				continue
			}
			parts = append(parts, fmt.Sprintf("%s: %s", st.Field(i).Name(), f.goExpr(q)))
		}
		return ts + "{" + strings.Join(parts, ", ") + "}"
	case "slice":
		var parts []string
		for _, e := range cv.elems {
			if e.kind == "zero" {
				parts = append(parts, "nil")
				if _, isPtr := e.typ.Underlying().(*types.Pointer); !isPtr {
					return "nil"
				}
				continue
			}
			parts = append(parts, e.goExpr(q))
		}
		return ts + "{" + strings.Join(parts, ", ") + "}"
	}
	return "*new(" + ts + ")"
}

var nonIdent = regexp.MustCompile(`[^A-Za-z0-9_]`)

// TryReplay returns the replay file and whether the real code violated the obligation on the derived input.
func TryReplay(e *Engine, r Result, dir, name, scratch string) (string, bool) {
	if r.V.Status != "sat" || r.O.Expect != "unsat" || r.V.Script == "" {
		return "", false
	}
	u := r.O.Unit
	fn := u.Fn
	if fn.Pkg == nil || u.entryState == nil {
		return "", false
	}
	// a function that works on the file system is never run on a model input: the model's path strings are arbitrary
	// (the replay would create or remove whatever they name)
	for k := range u.Trusted {
		if strings.Contains(k, "assumed contract: os.") || strings.Contains(k, "assumed contract: (*os.File)") {
			return "", false
		}
	}
	base, err := os.ReadFile(r.V.Script)
	if err != nil {
		return "", false
	}
	var file string
	reproduced := false
	var blocked []string // earlier candidate inputs that did not reproduce: excluded from the next model
	overall := time.Now().Add(100 * time.Second)
	// a string input often reaches the refuted clause only through library calls whose results are arbitrary in the
	// model (ToLower, TrimSpace, ...): besides the model's own value of the parameter, the model values of those results
	// are tried as the parameter (they are fixed points of such normalising calls more often than not)
	nAlt := 0
	if r.O.Kind == "ensures" {
		for _, p := range fn.Params {
			if isString(p.Type()) {
				nAlt = len(u.externStrs)
				break
			}
		}
		if nAlt > 3 {
			nAlt = 3
		}
	}
	for attempt := 0; attempt < 4+nAlt && !reproduced && time.Now().Before(overall); attempt++ {
	var lastFixed []string
	func() {
		defer func() {
			if rec := recover(); rec != nil {
				if os.Getenv("GOVC_DEBUG") != "" {
					fmt.Fprintln(os.Stderr, "replay failed:", rec)
				}
				file = ""
			}
		}()
		scriptMu.Lock()
		defer scriptMu.Unlock()
		cz := &concretizer{u: u, script: string(base), dir: scratch, budget: 400, deadline: time.Now().Add(45 * time.Second)}
		cz.fixed = append(cz.fixed, blocked...)
		defer func() { lastFixed = cz.fixed[len(blocked):] }()
		if r.O.Kind != "safety" {
			// only a safety obligation can be confirmed by running the candidate input (a panic); for the other kinds
			// the candidate is informative only: a short budget
			cz.deadline = time.Now().Add(15 * time.Second)
		}
		// prefer counterexamples in the first iteration of loops (their state is reachable from the inputs)
		for _, pr := range u.loopFirst {
			if pr[0].S == pr[1].S {
				cz.tryConstrain(u.C.Eq(pr[0], pr[1]))
			}
		}
		imports := map[string]string{}
		self := fn.Pkg.Pkg
		q := func(p *types.Package) string {
			if p == self {
				return ""
			}
			imports[p.Path()] = p.Name()
			return p.Name()
		}
		var args []string
		altDone := false
		for i, p := range fn.Params {
			pv := u.params[i]
			if attempt >= 1 && attempt <= nAlt && !altDone && isString(p.Type()) {
				pv = u.externStrs[attempt-1]
				altDone = true
			}
			cv := cz.build(pv, p.Type(), 0)
			if cv.kind == "toolarge" {
				panic("too large")
			}
			args = append(args, cv.goExpr(q))
		}
		pkgDir, _ := filepath.Rel(e.RepoDir, filepath.Dir(e.Fset.Position(fn.Pos()).Filename))
		testName := "TestGovcReplay_" + nonIdent.ReplaceAllString(fn.Name(), "_")
		var sb bytes.Buffer
		fmt.Fprintf(&sb, "// replay-package: %s\n// replay-test: %s\n// replay-specgen: %s\n", pkgDir, testName, GenFileName)
		fmt.Fprintf(&sb, "// Replay of a refuted obligation, derived from the solver's model.\n// function:   %s\n// obligation: %s :: %s\n// source:     %s\n\n", r.O.Fn, r.O.Kind, r.O.Name, r.O.Pos)
		fmt.Fprintf(&sb, "package %s\n\nimport (\n\t\"testing\"\n", self.Name())
		// arguments first (to know imports)
		var body bytes.Buffer
		call := ""
		if fn.Signature.Recv() != nil {
			fmt.Fprintf(&body, "\trecv := %s\n", args[0])
			for i, a := range args[1:] {
				fmt.Fprintf(&body, "\ta%d := %s\n", i, a)
			}
			var as []string
			for i := range args[1:] {
				as = append(as, fmt.Sprintf("a%d", i))
			}
			call = fmt.Sprintf("recv.%s(%s)", fn.Name(), strings.Join(as, ", "))
		} else {
			var as []string
			for i, a := range args {
				fmt.Fprintf(&body, "\ta%d := %s\n", i, a)
				as = append(as, fmt.Sprintf("a%d", i))
			}
			call = fmt.Sprintf("%s(%s)", fn.Name(), strings.Join(as, ", "))
		}
		for path, nm := range imports {
			fmt.Fprintf(&sb, "\t%s %q\n", nm, path)
		}
		usesWriter := strings.Contains(body.String(), "govcBuf")
		if usesWriter {
			if _, ok := imports["io"]; !ok {
				sb.WriteString("\tio \"io\"\n")
			}
		}
		sb.WriteString(")\n\n")
		if usesWriter {
			sb.WriteString("type govcBuf struct{ b []byte }\n\nfunc (g *govcBuf) Write(p []byte) (int, error) { g.b = append(g.b, p...); return len(p), nil }\n\n")
		}
		if usesWriter {
			sb.WriteString("func (g *govcBuf) govcBytes() []byte { return g.b }\n\n")
		}
		fmt.Fprintf(&sb, "func %s(t *testing.T) {\n", testName)
		clauseMode := false
		var pre, post string
		if r.O.Kind == "ensures" && r.O.Clause != nil && u.BC != nil {
			pre, post, clauseMode = clauseReplay(e, u, r.O.Clause, fn)
		}
		if clauseMode {
			sb.WriteString("\tdefer func() {\n\t\tif r := recover(); r != nil {\n\t\t\tt.Fatalf(\"GOVC-PANIC: the real code panics on the model input (not the clause under replay): %v\", r)\n\t\t}\n\t}()\n")
		} else {
			sb.WriteString("\tdefer func() {\n\t\tif r := recover(); r != nil {\n\t\t\tt.Fatalf(\"GOVC-REPRODUCED: the real code panics on the model input: %v\", r)\n\t\t}\n\t}()\n")
		}
		sb.Write(body.Bytes())
		if clauseMode {
			// the contract clause is evaluated on the real run: preconditions before the call, the refuted postcondition after it
			sb.WriteString(pre)
			nres := fn.Signature.Results().Len()
			if nres > 0 {
				var rs []string
				for i := 0; i < nres; i++ {
					rs = append(rs, fmt.Sprintf("r%d", i))
				}
				fmt.Fprintf(&sb, "\t%s := %s\n", strings.Join(rs, ", "), call)
				for _, x := range rs {
					fmt.Fprintf(&sb, "\t_ = %s\n", x)
				}
			} else {
				fmt.Fprintf(&sb, "\t%s\n", call)
			}
			sb.WriteString(post)
		} else {
			fmt.Fprintf(&sb, "\t%s\n", call)
			if r.O.Kind != "safety" {
				fmt.Fprintf(&sb, "\tt.Logf(\"the call returned; the violated clause (%s) is stated in the header and must be compared by hand\")\n", strings.ReplaceAll(r.O.Kind, "\"", "'"))
			}
		}
		sb.WriteString("}\n")
		file = filepath.Join(dir, name+"_test.go")
		if len(file) > 200 {
			file = filepath.Join(dir, name[:100]+"_test.go")
		}
		os.WriteFile(file, sb.Bytes(), 0o644)
		// run it against the real code
		ov := filepath.Join(scratch, "ov_"+name[:min(40, len(name))]+".json")
		ovText := fmt.Sprintf("{\"Replace\": {%q: %q", filepath.Join(e.RepoDir, pkgDir, "zz_govc_replay_test.go"), file)
		if clauseMode {
			// the generated contract file (spec functions) with evaluating helpers joins the package for this run only
			gp := filepath.Join(e.RepoDir, pkgDir, GenFileName)
			if gen, ok := e.GenText[gp]; ok {
				// kept beside the replay so that /verif/replay.sh can run it again (named in the replay's header)
				gf := strings.TrimSuffix(file, "_test.go") + "_specgen.go.txt"
				os.WriteFile(gf, []byte(ReplayText(gen)), 0o644)
				ovText += fmt.Sprintf(", %q: %q", gp, gf)
			}
		}
		os.WriteFile(ov, []byte(ovText+"}}"), 0o644)
		ctx, cancel := context.WithTimeout(context.Background(), 120*time.Second)
		defer cancel()
		cmd := exec.CommandContext(ctx, "bash", "-c", fmt.Sprintf("ulimit -v 4000000; cd %s && go test -overlay %s -vet=off -timeout 60s -count=1 -run '^%s$' ./%s", e.RepoDir, ov, testName, pkgDir))
		cmd.Env = append(os.Environ(), "GOFLAGS=-mod=mod", "GOPROXY=off", "GOSUMDB=off", "GOTOOLCHAIN=local")
		out, _ := cmd.CombinedOutput()
		os.Remove(ov)
		if bytes.Contains(out, []byte("GOVC-REPRODUCED")) && (r.O.Kind == "safety" || clauseMode) {
			// a safety obligation is violated exactly when the real call panics; a postcondition when every precondition
			// evaluated to true on the input and the clause evaluated to false on the real result
			reproduced = true
		}
		res := string(out)
		if len(res) > 3000 {
			res = res[:3000]
		}
		f, _ := os.OpenFile(file, os.O_APPEND|os.O_WRONLY, 0o644)
		fmt.Fprintf(f, "\n/* result of running this replay against the real code (reproduced=%v):\n%s\n*/\n", reproduced, strings.ReplaceAll(res, "*/", "* /"))
		f.Close()
	}()
	if file == "" || len(lastFixed) == 0 {
		break
	}
	// exclude this candidate (the conjunction of the values read from the model) and ask for another one
	var eqs []string
	for _, f := range lastFixed {
		if strings.HasPrefix(f, "(assert (= ") {
			eqs = append(eqs, strings.TrimSuffix(strings.TrimPrefix(f, "(assert "), ")"))
		}
	}
	if len(eqs) == 0 {
		break
	}
	blocked = append(blocked, "(assert (not (and "+strings.Join(eqs, " ")+")))")
	}
	if file == "" {
		return "", false
	}
	return file, reproduced
}

// clauseReplay renders Go code that evaluates the contract's preconditions (before the call) and the refuted
// postcondition (after it) on the real run. ok is false when the clause cannot be evaluated by a running program
// (final(), atHead(), old() of something that depends on a quantified variable); ghost state met at run time makes
// the evaluation give up by itself (govcGhost).
func clauseReplay(e *Engine, u *Unit, cl *ClauseExpr, fn *ssa.Function) (pre, post string, ok bool) {
	bc := u.BC
	info := bc.info()
	var hoists []string
	giveUp := false
	show := func(x ast.Expr) string {
		var b bytes.Buffer
		printer.Fprint(&b, e.Fset, x)
		return b.String()
	}
	// render an expression with old(...) replaced by hoisted variables
	var render func(x ast.Expr) string
	render = func(x ast.Expr) string {
		type saved struct {
			p *ast.ParenExpr
			x ast.Expr
		}
		var undo []saved
		bound := map[types.Object]bool{}
		ast.Inspect(x, func(n ast.Node) bool {
			if fl, isLit := n.(*ast.FuncLit); isLit {
				for _, f := range fl.Type.Params.List {
					for _, nm := range f.Names {
						bound[info.Defs[nm]] = true
					}
				}
			}
			return true
		})
		ast.Inspect(x, func(n ast.Node) bool {
			p, isParen := n.(*ast.ParenExpr)
			if !isParen {
				return true
			}
			switch e.parenMarks[p.Lparen] {
			case "old":
				usesBound := false
				ast.Inspect(p.X, func(m ast.Node) bool {
					if id, isID := m.(*ast.Ident); isID && bound[info.Uses[id]] {
						usesBound = true
					}
					return true
				})
				if usesBound {
					giveUp = true
					return false
				}
				v := fmt.Sprintf("govcOld%d", len(hoists))
				hoists = append(hoists, fmt.Sprintf("\t%s := %s\n\t_ = %s\n", v, show(p.X), v))
				undo = append(undo, saved{p, p.X})
				p.X = ast.NewIdent(v)
				return false
			case "final", "head":
				giveUp = true
				return false
			}
			return true
		})
		txt := show(x)
		for _, s := range undo {
			s.p.X = s.x
		}
		return txt
	}
	var decl strings.Builder
	// parameter names of the contract denote the replay's argument variables
	for i, p := range bc.Params {
		if p.Name() == "" || p.Name() == "_" {
			continue
		}
		src := fmt.Sprintf("a%d", i)
		if fn.Signature.Recv() != nil {
			if i == 0 {
				src = "recv"
			} else {
				src = fmt.Sprintf("a%d", i-1)
			}
		}
		fmt.Fprintf(&decl, "\t%s := %s\n\t_ = %s\n", p.Name(), src, p.Name())
	}
	var reqs []string
	for _, rq := range bc.Requires {
		reqs = append(reqs, "("+render(rq.Expr)+")")
	}
	clause := render(cl.Expr)
	if giveUp {
		return "", "", false
	}
	evalFn := func(name, expr string) string {
		return fmt.Sprintf("\t%sEv, %sOk := func() (ev bool, ok bool) {\n\t\tdefer func() {\n\t\t\tif r := recover(); r != nil {\n\t\t\t\tev, ok = false, false\n\t\t\t}\n\t\t}()\n\t\treturn true, %s\n\t}()\n", name, name, expr)
	}
	var pb strings.Builder
	pb.WriteString(decl.String())
	pre1 := "true"
	if len(reqs) > 0 {
		pre1 = strings.Join(reqs, " && ")
	}
	pb.WriteString(evalFn("govcPre", pre1))
	for _, h := range hoists {
		pb.WriteString(h)
	}
	var qb strings.Builder
	for i, r := range bc.Results {
		if r.Name() == "" || r.Name() == "_" {
			continue
		}
		fmt.Fprintf(&qb, "\t%s := r%d\n\t_ = %s\n", r.Name(), i, r.Name())
	}
	qb.WriteString(evalFn("govcPost", clause))
	qb.WriteString("\tswitch {\n\tcase !govcPreEv || !govcPostEv:\n\t\tt.Logf(\"GOVC-NOT-EVALUABLE: the clause (or a precondition) mentions ghost state or panicked while being evaluated\")\n")
	qb.WriteString("\tcase !govcPreOk:\n\t\tt.Logf(\"GOVC-PRECONDITION-FALSE: the candidate input does not satisfy the contract's preconditions on the real types\")\n")
	qb.WriteString("\tcase !govcPostOk:\n\t\tt.Fatalf(\"GOVC-REPRODUCED: every precondition holds on this input and the postcondition is false on the result of the real code\")\n")
	qb.WriteString("\tdefault:\n\t\tt.Logf(\"GOVC-HOLDS: the postcondition holds on this input (the candidate did not reproduce the violation)\")\n\t}\n")
	return pb.String(), qb.String(), true
}
