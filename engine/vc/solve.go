package vc

import (
	"bytes"
	"context"
	"fmt"
	"os"
	"os/exec"
	"path/filepath"
	"runtime"
	"strings"
	"sync"
	"syscall"
	"time"
)

type Verdict struct {
	Status  string // unsat, sat, unknown, timeout, error, trivial
	Solver  string
	Seconds float64 // wall-clock seconds
	CPU     float64 // CPU seconds (user+system) of the solver process that gave the verdict
	Output  string // solver output (first lines) — model when sat
	Script  string // path of the query (kept only for failures)
}

type SolverCfg struct {
	Name string
	Args func(file string, timeoutS int) []string
}

var Solvers = []SolverCfg{
	{"z3-new-5.1.0", func(f string, t int) []string { return []string{"z3-new", fmt.Sprintf("-T:%d", t), f} }},
	{"z3-4.8.12", func(f string, t int) []string { return []string{"z3", fmt.Sprintf("-T:%d", t), f} }},
	{"cvc5-1.0.3", func(f string, t int) []string {
		return []string{"cvc5", "--incremental", fmt.Sprintf("--tlimit=%d", t*1000), f}
	}},
}

// SolversWide adds differently seeded runs of z3 to the race: quantified goals that one search order misses are
// usually found at once by another (used for the last attempt and for retries only).
var SolversWide = append(append([]SolverCfg{}, Solvers...),
	SolverCfg{"z3-new-5.1.0 seed 11", func(f string, t int) []string {
		return []string{"z3-new", fmt.Sprintf("-T:%d", t), "smt.random_seed=11", "sat.random_seed=11", f}
	}},
	SolverCfg{"z3-new-5.1.0 seed 29", func(f string, t int) []string {
		return []string{"z3-new", fmt.Sprintf("-T:%d", t), "smt.random_seed=29", "sat.random_seed=29", f}
	}},
	SolverCfg{"z3-new-5.1.0 seed 47", func(f string, t int) []string {
		return []string{"z3-new", fmt.Sprintf("-T:%d", t), "smt.random_seed=47", "sat.random_seed=47", f}
	}},
)

// Script of an obligation.
func (o *Obligation) Script(getValues []*Term) string { return o.script(getValues, false) }

// ScriptQF is the query with every quantified hypothesis replaced by its heuristic ground instances.
// Dropping hypotheses is sound for "unsat"; a "sat" answer of this weaker query is not a refutation.
func (o *Obligation) ScriptQF() string { return o.script(nil, true) }

var scriptMu sync.Mutex

func (o *Obligation) script(getValues []*Term, qfOnly bool) string {
	scriptMu.Lock()
	defer scriptMu.Unlock()
	u := o.Unit
	// hypotheses guarded by a condition that contradicts this obligation's path condition are irrelevant
	neg := map[int]bool{}
	for _, x := range conjuncts(o.PC) {
		if x.Op == OpNot {
			neg[x.Args[0].id] = true
		} else {
			neg[-x.id] = true
		}
	}
	var hyps []*Term
	for _, h := range u.assumes[:o.NHyps] {
		skip := false
		if h.Op == OpImplies {
			for _, x := range conjuncts(h.Args[0]) {
				if x.Op == OpNot {
					if neg[-x.Args[0].id] {
						skip = true
					}
				} else if neg[x.id] {
					skip = true
				}
			}
		}
		if o.Expect == "sat" && h.HasQuant() {
			// reachability / vacuity canaries are decided over the quantifier-free hypotheses only
			// (a quantified hypothesis makes "sat" undecidable in practice); stated in the evidence
			skip = true
		}
		if !skip {
			hyps = append(hyps, h)
		}
	}
	hyps = append(hyps, o.PC)
	goal := u.C.Skolemize(o.Goal)
	if o.Expect != "sat" {
		inst := u.C.instances(hyps, goal)
		if qfOnly {
			// the path condition is always kept (its conjuncts with a quantifier are usually guards shared with the
			// goal, or an induction hypothesis): only background assumptions with quantifiers are replaced by instances
			// quantified formulas that occur as GUARDS inside the instances, the goal or the path condition: a hypothesis
			// that asserts exactly such a formula is kept (it is what discharges the guard, as a propositional atom)
			guards := map[int]bool{}
			seenT := map[int]bool{}
			var findQ func(t *Term)
			findQ = func(t *Term) {
				if seenT[t.id] || !t.quant {
					return
				}
				seenT[t.id] = true
				if t.Op == OpForall || t.Op == OpExists {
					guards[t.id] = true
					return
				}
				for _, a := range t.Args {
					findQ(a)
				}
			}
			for _, t := range inst {
				findQ(t)
			}
			findQ(goal)
			findQ(o.PC)
			var qf []*Term
			keep := func(g, a *Term) {
				if !a.quant || guards[a.id] {
					if g != nil {
						a = u.C.Implies(g, a)
					}
					qf = append(qf, a)
				}
			}
			for _, h := range hyps {
				if !h.quant || h == o.PC || guards[h.id] {
					qf = append(qf, h)
					continue
				}
				// the quantifier-free conjuncts (and the guard formulas) of a quantified hypothesis survive the weakening
				if h.Op == OpAnd {
					for _, a := range h.Args {
						keep(nil, a)
					}
				} else if h.Op == OpImplies && !h.Args[0].quant {
					if h.Args[1].Op == OpAnd {
						for _, a := range h.Args[1].Args {
							keep(h.Args[0], a)
						}
					} else if guards[h.Args[1].id] {
						qf = append(qf, h)
					}
				}
			}
			hyps = qf
		}
		hyps = append(hyps, inst...)
	}
	return u.C.Script(hyps, goal, getValues)
}

func firstLine(s string) string {
	s = strings.TrimSpace(s)
	if i := strings.IndexByte(s, '\n'); i >= 0 {
		return strings.TrimSpace(s[:i])
	}
	return s
}

// cpuSlots bounds the number of solver processes running at once to the number of CPUs: a race of n solvers takes n
// slots, so that time budgets mean CPU time and not a share of an oversubscribed machine.
var cpuSlots = func() *slots {
	n := runtime.NumCPU()
	if n < 2 {
		n = 2
	}
	return &slots{free: n, cap: n, cond: sync.NewCond(&sync.Mutex{})}
}()

type slots struct {
	free, cap int
	cond      *sync.Cond
}

func (s *slots) acquire(n int) int {
	if n > s.cap {
		n = s.cap
	}
	s.cond.L.Lock()
	for s.free < n {
		s.cond.Wait()
	}
	s.free -= n
	s.cond.L.Unlock()
	return n
}

func (s *slots) release(n int) {
	s.cond.L.Lock()
	s.free += n
	s.cond.L.Unlock()
	s.cond.Broadcast()
}

// WallFactor: a solver's budget is CPU time (RLIMIT_CPU on the solver process), so that a verdict does not depend on how
// busy the machine is; the wall-clock limit is only a backstop at WallFactor times the budget.
const WallFactor = 10

// RunQuery races the solvers on one script. timeoutS is each solver's budget in CPU seconds.
func RunQuery(script string, dir, name string, timeoutS int, solvers []SolverCfg) Verdict {
	file := filepath.Join(dir, name+".smt2")
	if err := os.WriteFile(file, []byte(script), 0o644); err != nil {
		return Verdict{Status: "error", Output: err.Error()}
	}
	got := cpuSlots.acquire(len(solvers))
	defer cpuSlots.release(got)
	wallS := timeoutS * WallFactor
	ctx, cancel := context.WithTimeout(context.Background(), time.Duration(wallS+2)*time.Second)
	defer cancel()
	type res struct {
		v Verdict
	}
	ch := make(chan res, len(solvers))
	start := time.Now()
	for _, s := range solvers {
		s := s
		go func() {
			args := s.Args(file, wallS)
			// the shell only sets the CPU limit and execs the solver: the kernel kills the solver when the budget is spent
			sh := append([]string{"-c", fmt.Sprintf("ulimit -t %d; exec \"$@\"", timeoutS+1), "sh"}, args...)
			cmd := exec.CommandContext(ctx, "/bin/sh", sh...)
			var out bytes.Buffer
			cmd.Stdout = &out
			cmd.Stderr = &out
			t0 := time.Now()
			_ = cmd.Run()
			cpu, killed := 0.0, false
			if ps := cmd.ProcessState; ps != nil {
				cpu = (ps.UserTime() + ps.SystemTime()).Seconds()
				if ws, ok := ps.Sys().(syscall.WaitStatus); ok && ws.Signaled() {
					killed = true // CPU budget spent (SIGKILL/SIGXCPU from the rlimit) or cancelled by the race
				}
			}
			fl := firstLine(out.String())
			st := "unknown"
			switch {
			case fl == "unsat":
				st = "unsat"
			case fl == "sat":
				st = "sat"
			case fl == "timeout" || strings.Contains(fl, "interrupted") || ctx.Err() != nil || killed:
				st = "timeout"
			case strings.HasPrefix(fl, "(error") || strings.Contains(fl, "rror"):
				st = "error"
			}
			o := out.String()
			if len(o) > 6000 {
				o = o[:6000]
			}
			ch <- res{Verdict{Status: st, Solver: s.Name, Seconds: time.Since(t0).Seconds(), CPU: cpu, Output: o}}
		}()
	}
	var last Verdict
	var errs []string
	for i := 0; i < len(solvers); i++ {
		r := <-ch
		if r.v.Status == "unsat" || r.v.Status == "sat" {
			cancel()
			r.v.Script = file
			return r.v
		}
		if r.v.Status == "error" {
			errs = append(errs, r.v.Solver+": "+firstLine(r.v.Output))
		}
		if last.Status == "" || r.v.Status == "timeout" || last.Status == "error" {
			last = r.v
		}
	}
	last.Seconds = time.Since(start).Seconds()
	last.Script = file
	if len(errs) == len(solvers) {
		last.Status = "error"
		last.Output = strings.Join(errs, "; ")
	}
	return last
}

type Result struct {
	O *Obligation
	V Verdict
	OK bool
}

// Discharge runs all obligations with a worker pool.
var dischargeSeq int

func Discharge(obls []*Obligation, dir string, timeoutS, workers int) []Result {
	dischargeSeq++
	pfx := fmt.Sprintf("f%03d", dischargeSeq)
	res := make([]Result, len(obls))
	var wg sync.WaitGroup
	sem := make(chan struct{}, workers)
	for i, o := range obls {
		i, o := i, o
		res[i].O = o
		// trivial cases decided by the simplifier
		if o.Expect == "unsat" && (o.Goal.IsTrue() || o.PC.IsFalse()) {
			res[i].V = Verdict{Status: "unsat", Solver: "simplifier"}
			res[i].OK = true
			continue
		}
		if o.Expect == "sat" && o.PC.IsFalse() {
			res[i].V = Verdict{Status: "unsat", Solver: "simplifier"}
			res[i].OK = false
			continue
		}
		script := o.Script(nil)
		hasQuantHyp := strings.Contains(script, "(forall ")
		wg.Add(1)
		sem <- struct{}{}
		go func() {
			defer wg.Done()
			defer func() { <-sem }()
			// most obligations are easy: one solver with a short budget first, the full race only if undecided
			v := RunQuery(script, dir, fmt.Sprintf("%sq%04d", pfx, i), 2, Solvers[:1])
			if v.Status != "sat" && v.Status != "unsat" && o.Expect == "unsat" && hasQuantHyp {
				// quantifier-free weakening (ground instances only): an unsat answer is conclusive
				vq := RunQuery(o.ScriptQF(), dir, fmt.Sprintf("%sq%04dqf", pfx, i), timeoutS, Solvers)
				if vq.Status == "unsat" {
					vq.Solver += " (ground instances)"
					os.Remove(vq.Script)
					v = vq
				}
			}
			if v.Status != "sat" && v.Status != "unsat" {
				v = RunQuery(script, dir, fmt.Sprintf("%sq%04d", pfx, i), timeoutS, SolversWide)
			}
			res[i].V = v
			res[i].OK = v.Status == o.Expect
			if res[i].OK {
				os.Remove(v.Script)
			}
		}()
	}
	wg.Wait()
	return res
}

// instances adds ground instances of single-variable universally quantified hypotheses at the terms the
// goal talks about: its skolem constants (and their neighbours) and the element indices it reads.
// Adding instances of hypotheses is sound; it only saves the solver from finding them by E-matching.
func (c *Ctx) instances(hyps []*Term, goal *Term) []*Term {
	type q struct {
		guard *Term
		v     *Term
		body  *Term
	}
	var qs []q
	var collect func(g, t *Term)
	collect = func(g, t *Term) {
		switch t.Op {
		case OpForall:
			if len(t.Bound) == 1 {
				qs = append(qs, q{g, t.Bound[0], t.Args[0]})
			}
		case OpImplies:
			ng := t.Args[0]
			if g != nil {
				ng = c.And(g, ng)
			}
			collect(ng, t.Args[1])
		case OpAnd:
			for _, a := range t.Args {
				collect(g, a)
			}
		case OpOr:
			for i, a := range t.Args {
				if !a.quant {
					continue
				}
				ng := g
				for j, b := range t.Args {
					if j != i {
						if ng == nil {
							ng = c.Not(b)
						} else {
							ng = c.And(ng, c.Not(b))
						}
					}
				}
				collect(ng, a)
			}
		}
	}
	for _, h := range hyps {
		if h.quant {
			collect(nil, h)
		}
	}
	if len(qs) == 0 {
		return nil
	}
	// candidate terms
	var cands []*Term
	seenC := map[int]bool{}
	add := func(t *Term) {
		if t.S != BV(64) || seenC[t.id] || len(t.free) > 0 || len(cands) >= 10 {
			return
		}
		seenC[t.id] = true
		cands = append(cands, t)
	}
	seen := map[int]bool{}
	var walk func(t *Term)
	walk = func(t *Term) {
		if seen[t.id] {
			return
		}
		seen[t.id] = true
		if t.Op == OpVar && strings.HasPrefix(t.Name, "sk_") || t.Op == OpVar && strings.HasPrefix(t.Name, "|sk_") {
			add(t)
			add(c.Sub(t, c.BVu(1, 64)))
			add(c.Add(t, c.BVu(1, 64)))
		}
		if t.Op == OpIdx {
			ix := t.Args[1]
			if ix.Op == OpAdd && len(ix.Args) == 2 && !ix.Args[1].IsConst() {
				add(ix.Args[1])
			} else {
				add(ix)
			}
		}
		for _, a := range t.Args {
			walk(a)
		}
	}
	walk(goal)
	// E-matching by hand for uninterpreted (spec) functions: a quantified hypothesis whose body applies f to its bound
	// variable is also instantiated at every ground t such that f(.., t, ..) occurs in the goal or the path condition
	groundArgs := map[string]map[int][]*Term{} // function name -> argument position -> ground terms
	seenG := map[int]bool{}
	var walkApps func(t *Term)
	walkApps = func(t *Term) {
		if seenG[t.id] {
			return
		}
		seenG[t.id] = true
		if t.Op == OpForall || t.Op == OpExists {
			return
		}
		if t.Op == OpApp && strings.HasPrefix(t.Name, "spec_") {
			for i, a := range t.Args {
				if a.S == BV(64) && len(a.free) == 0 {
					if groundArgs[t.Name] == nil {
						groundArgs[t.Name] = map[int][]*Term{}
					}
					groundArgs[t.Name][i] = append(groundArgs[t.Name][i], a)
				}
			}
		}
		for _, a := range t.Args {
			walkApps(a)
		}
	}
	walkApps(goal)
	if len(hyps) > 0 {
		walkApps(hyps[len(hyps)-1]) // the path condition
	}
	extra := func(v, body *Term) []*Term {
		var out []*Term
		seenE := map[int]bool{}
		seenB := map[int]bool{}
		var wb func(t *Term)
		wb = func(t *Term) {
			if seenB[t.id] || len(out) > 12 {
				return
			}
			seenB[t.id] = true
			if t.Op == OpApp && strings.HasPrefix(t.Name, "spec_") {
				for i, a := range t.Args {
					if a == v {
						for _, g := range groundArgs[t.Name][i] {
							if !seenE[g.id] && !seenC[g.id] {
								seenE[g.id] = true
								out = append(out, g)
							}
						}
					}
				}
			}
			for _, a := range t.Args {
				wb(a)
			}
		}
		wb(body)
		return out
	}
	var out []*Term
	n := 0
	// the same quantified fact is often assumed several times (per loop, per case): one instance set is enough; facts
	// about spec functions (lemmas, definitions) come first so that the cap below never cuts them off
	{
		seenQ := map[[3]int]bool{}
		var first, rest []q
		for _, qq := range qs {
			gid := 0
			if qq.guard != nil {
				gid = qq.guard.id
			}
			key := [3]int{qq.v.id, qq.body.id, gid}
			if seenQ[key] {
				continue
			}
			seenQ[key] = true
			if len(extra(qq.v, qq.body)) > 0 {
				first = append(first, qq)
			} else {
				rest = append(rest, qq)
			}
		}
		qs = append(first, rest...)
	}
	if os.Getenv("GOVC_DEBUG_INST") != "" {
		ne := 0
		for _, qq := range qs {
			if len(extra(qq.v, qq.body)) > 0 {
				ne++
			}
		}
		fmt.Fprintf(os.Stderr, "instances: %d quantifiers (%d about spec functions), %d candidates, ground spec args: %d functions, goal size %d\n", len(qs), ne, len(cands), len(groundArgs), goal.size)
	}
	seenInst := map[int]bool{}
	// two rounds: the instances of the first round may expose quantifiers nested one level down (forall k forall j)
	for round := 0; round < 2; round++ {
		var next []*Term
		for _, qq := range qs {
			for _, cd := range append(append([]*Term{}, cands...), extra(qq.v, qq.body)...) {
				if qq.v.S != cd.S {
					continue
				}
				inst := c.Subst(qq.body, map[int]*Term{qq.v.id: cd})
				if qq.guard != nil {
					inst = c.Implies(qq.guard, inst)
				}
				// an instance may itself contain a quantifier (a lemma's guard, a nested quantifier): alpha-equivalent
				// guards are one term, so the solver usually treats it as a propositional atom shared with the goal
				if !inst.IsTrue() && !seenInst[inst.id] {
					seenInst[inst.id] = true
					out = append(out, inst)
					if inst.quant {
						next = append(next, inst)
					}
					n++
				}
				if n > 400 {
					return out
				}
			}
		}
		qs = nil
		for _, h := range next {
			collect(nil, h)
		}
		if len(qs) == 0 {
			break
		}
	}
	return out
}
