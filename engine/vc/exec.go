package vc

import (
	"bytes"
	"fmt"
	"go/ast"
	"go/constant"
	"go/printer"
	"go/token"
	"go/types"
	"math/big"
	"sort"
	"strings"

	"golang.org/x/tools/go/ast/astutil"
	"golang.org/x/tools/go/ssa"
)

func constantBool(k *ssa.Const) bool     { return constant.BoolVal(k.Value) }
func constantString(k *ssa.Const) string { return constant.StringVal(k.Value) }
func constantBig(k *ssa.Const) (*big.Int, bool) {
	v := constant.ToInt(k.Value)
	if v.Kind() != constant.Int {
		return nil, false
	}
	if i, ok := constant.Int64Val(v); ok {
		return big.NewInt(i), true
	}
	bi, ok := new(big.Int).SetString(v.ExactString(), 10)
	return bi, ok
}

// ---- obligations ----------------------------------------------------------------

type Obligation struct {
	Name   string
	Kind   string // safety, ensures, requires@call, loop.init, loop.preserved, loop.decreases, frame, unwind, cover, typeinv, lock, panic
	Fn     string
	Pos    token.Position
	NHyps  int // number of global assumptions visible
	PC     *Term
	Goal   *Term
	Unit   *Unit
	Expect string // "unsat" (normal) or "sat" (cover / canary)
	Src    string
	Known  string // known-finding id when the clause is carved out
	Clause *ClauseExpr // the contract clause behind an ensures obligation (for replay)
}

// Unit is the verification of one function (or one lemma).
type Unit struct {
	E          *Engine
	C          *Ctx
	MC         *MemCtx
	Fn         *ssa.Function
	BC         *BoundContract
	assumes    []*Term
	assumed    map[int]bool
	Obls       []*Obligation
	oblCount   map[string]int
	entryMems  map[string]*Mem
	nextObj    int
	specMode   int
	Trusted    map[string]bool
	Warnings   []string
	strLitDone map[int]bool
	depth      int
	entryState *State
	params     []Val
	Inlined    map[string]bool
	externStrs []*SliceV // string results of assumed (extern) calls: alternative replay candidates for string inputs
	curFrame   *frame
	callStack  []*ssa.Function
	loopRegion []*loopRegion // active loop frames (innermost last)
	fnRegion   *Region       // function-level modifies (nil: unchecked)
	steps      int
	nilChecked map[int][]*Term
	caseTag    string
	caseCond   *Term
	loopFirst  [][2]*Term
	symAddrs   []*Term
	recFuel    map[*specFunc]int
	assertHit  map[*Clause]bool
	readRec    map[string]bool // probe: memory kinds read
	probing    int
	FnName     string // display name when the unit is not a function (lemma)
	panicking  int    // > 0 while the deferred calls of a recovered panic are executed
	privateObj map[int]bool // objects holding private locals (see privateAllocs)
}

func (e *Engine) NewUnit(fn *ssa.Function, bc *BoundContract) *Unit {
	c := NewCtx()
	u := &Unit{E: e, C: c, MC: NewMemCtx(c), Fn: fn, BC: bc, assumed: map[int]bool{}, oblCount: map[string]int{},
		entryMems: map[string]*Mem{}, Trusted: map[string]bool{}, strLitDone: map[int]bool{}, Inlined: map[string]bool{}}
	u.MC.NextObj = &u.nextObj
	return u
}

func (u *Unit) assumeGlobal(f *Term) {
	if u.caseCond != nil {
		save := u.C.Rewrite
		u.C.Rewrite = nil
		f = u.C.Implies(u.caseCond, f)
		u.C.Rewrite = save
	}
	f = u.C.Close(f)
	if f.IsTrue() || u.assumed[f.id] {
		return
	}
	u.assumed[f.id] = true
	u.assumes = append(u.assumes, f)
}

func (u *Unit) assume(st *State, f *Term) {
	u.assumeGlobal(u.C.Implies(st.pc, f))
}

func (u *Unit) newObj() *Term {
	u.nextObj++
	o := u.C.Obj(u.nextObj)
	c := u.C
	for _, v := range u.symAddrs {
		// v was created before this allocation: it is not the new object nor an address directly inside it
		u.assumeGlobal(c.And(c.Ne(v, o),
			c.Not(c.And(c.IsFld(v), c.Eq(c.FldBase(v), o))),
			c.Not(c.And(c.IsIdx(v), c.Eq(c.IdxBase(v), o)))))
	}
	return o
}

func (u *Unit) oblige(st *State, kind, name string, pos token.Pos, goal *Term) {
	if u.specMode > 0 {
		return
	}
	if goal.IsTrue() || st.pc.IsFalse() {
		// still counted: trivially discharged by simplification
		u.addObl(&Obligation{Kind: kind, Name: name, PC: st.pc, Goal: goal, Pos: u.E.Fset.Position(pos)})
		return
	}
	u.addObl(&Obligation{Kind: kind, Name: name, PC: st.pc, Goal: goal, Pos: u.E.Fset.Position(pos)})
}

func (u *Unit) addObl(o *Obligation) {
	o.Unit = u
	o.NHyps = len(u.assumes)
	if u.Fn != nil {
		o.Fn = u.Fn.String()
	} else {
		o.Fn = u.FnName
	}
	if u.BC != nil && u.BC.Variant != "" {
		o.Fn += "[" + u.BC.Variant + "]"
	}
	if o.Expect == "" {
		o.Expect = "unsat"
	}
	if u.caseTag != "" {
		o.Name += " [case " + u.caseTag + "]"
	}
	base := o.Kind + ":" + o.Name
	u.oblCount[base]++
	if n := u.oblCount[base]; n > 1 {
		o.Name = fmt.Sprintf("%s#%d", o.Name, n)
	}
	u.Obls = append(u.Obls, o)
}

// srcText renders the innermost expression enclosing pos.
func (u *Unit) srcText(fn *ssa.Function, pos token.Pos, want string) string {
	if !pos.IsValid() {
		return "?"
	}
	f := u.E.fileOf(pos)
	if f == nil {
		return u.E.Fset.Position(pos).String()
	}
	path, _ := astutil.PathEnclosingInterval(f, pos, pos+1)
	for _, n := range path {
		ok := false
		switch n.(type) {
		case *ast.IndexExpr:
			ok = want == "index" || want == ""
		case *ast.SliceExpr:
			ok = want == "slice" || want == ""
		case *ast.CallExpr:
			ok = want == "call" || want == ""
		case *ast.BinaryExpr:
			ok = want == "binary" || want == ""
		case *ast.StarExpr, *ast.SelectorExpr:
			ok = want == "deref" || want == ""
		case *ast.TypeAssertExpr:
			ok = want == "assert" || want == ""
		case *ast.UnaryExpr:
			ok = want == "deref" || want == ""
		}
		if ok {
			var b bytes.Buffer
			printer.Fprint(&b, u.E.Fset, n)
			s := strings.Join(strings.Fields(b.String()), " ")
			if len(s) > 80 {
				s = s[:80]
			}
			return s
		}
	}
	if len(path) > 0 {
		var b bytes.Buffer
		printer.Fprint(&b, u.E.Fset, path[0])
		s := strings.Join(strings.Fields(b.String()), " ")
		if len(s) > 60 {
			s = s[:60]
		}
		return s
	}
	return "?"
}

// ---- frames and block scheduling ----------------------------------------------------

type retRec struct {
	st   *State
	vals []Val
}

type deferRec struct {
	guard *Term
	call  *ssa.Defer
	args  []Val
	fnv   Val
	// a call deferred INSIDE a loop that is verified by invariant: an unknown number of such calls (one per earlier
	// iteration) is pending at function exit; bc is the callee's contract, full its arguments in the registering iteration
	inLoop bool
	bc     *BoundContract
	full   []Val
	key    string
}

type frame struct {
	u       *Unit
	fn      *ssa.Function
	vals    map[ssa.Value]Val
	isReg   map[*ssa.Alloc]bool
	parent  *frame
	bc      *BoundContract // contract driving loops of this frame (may be nil)
	rets    []retRec
	defers  []deferRec
	li      *loopInfo
	top     bool
	freeVal []Val
	entry   *State // state at function entry (for old())
	params  []Val
	panics  []*State // states reaching a panic edge (for recover modelling)
	heads   []*State // loop-head states of the loops being executed (innermost last)
	private    map[*ssa.Alloc]bool     // locals captured only by deferred closures (no callee can write them)
	exitStates map[int]*State          // loop ordinal -> merged state of the edges leaving the loop
	exitCtx    map[int]*ssa.BasicBlock // a block after the loop (for resolving local names)
	curBlk     *ssa.BasicBlock         // block being executed
	curIdx     int                     // index of the instruction being executed in curBlk
	armDefer   *ssa.Defer              // the deferred recover of a 'recovers' function (nil: not looked up / none)
	armLooked  bool
}

type edge struct {
	from *ssa.BasicBlock
	st   *State
}

type loopRegion struct {
	region   *Region
	name     string
	minFresh int // objects with a larger id were allocated inside the loop body
}

// loopInfo: natural loops of a function
type loop struct {
	header  *ssa.BasicBlock
	blocks  map[*ssa.BasicBlock]bool
	ordinal int
	parent  *loop
}

type loopInfo struct {
	rpo     []*ssa.BasicBlock
	rpoIdx  map[*ssa.BasicBlock]int
	back    map[[2]int]bool
	loops   map[*ssa.BasicBlock]*loop // by header
	ordered []*loop
	inner   map[*ssa.BasicBlock]*loop // innermost loop containing block
}

func (e *Engine) loopInfoOf(fn *ssa.Function) *loopInfo {
	if li, ok := e.loopInfos[fn]; ok {
		return li
	}
	li := &loopInfo{rpoIdx: map[*ssa.BasicBlock]int{}, back: map[[2]int]bool{}, loops: map[*ssa.BasicBlock]*loop{}, inner: map[*ssa.BasicBlock]*loop{}}
	if len(fn.Blocks) == 0 {
		e.loopInfos[fn] = li
		return li
	}
	// DFS for back edges (edge to a block on the stack) + postorder
	state := map[*ssa.BasicBlock]int{}
	var post []*ssa.BasicBlock
	var dfs func(b *ssa.BasicBlock)
	dfs = func(b *ssa.BasicBlock) {
		state[b] = 1
		for _, s := range b.Succs {
			switch state[s] {
			case 0:
				dfs(s)
			case 1:
				li.back[[2]int{b.Index, s.Index}] = true
			}
		}
		state[b] = 2
		post = append(post, b)
	}
	dfs(fn.Blocks[0])
	if fn.Recover != nil && state[fn.Recover] == 0 {
		dfs(fn.Recover)
	}
	// reverse postorder ignoring back edges: recompute via Kahn on forward edges for determinism
	for i := len(post) - 1; i >= 0; i-- {
		li.rpoIdx[post[i]] = len(li.rpo)
		li.rpo = append(li.rpo, post[i])
	}
	// natural loops
	for be := range li.back {
		t, h := fn.Blocks[be[0]], fn.Blocks[be[1]]
		l := li.loops[h]
		if l == nil {
			l = &loop{header: h, blocks: map[*ssa.BasicBlock]bool{h: true}}
			li.loops[h] = l
		}
		var stack []*ssa.BasicBlock
		if !l.blocks[t] {
			l.blocks[t] = true
			stack = append(stack, t)
		}
		for len(stack) > 0 {
			b := stack[len(stack)-1]
			stack = stack[:len(stack)-1]
			for _, p := range b.Preds {
				if !l.blocks[p] && state[p] != 0 {
					l.blocks[p] = true
					stack = append(stack, p)
				}
			}
		}
	}
	for _, l := range li.loops {
		li.ordered = append(li.ordered, l)
	}
	sort.Slice(li.ordered, func(i, j int) bool { return li.ordered[i].header.Index < li.ordered[j].header.Index })
	for i, l := range li.ordered {
		l.ordinal = i
	}
	// nesting: innermost loop per block = smallest containing loop
	for _, b := range fn.Blocks {
		var best *loop
		for _, l := range li.ordered {
			if l.blocks[b] && (best == nil || len(l.blocks) < len(best.blocks)) {
				best = l
			}
		}
		li.inner[b] = best
	}
	for _, l := range li.ordered {
		var best *loop
		for _, m := range li.ordered {
			if m != l && m.blocks[l.header] && (best == nil || len(m.blocks) < len(best.blocks)) {
				best = m
			}
		}
		l.parent = best
	}
	e.loopInfos[fn] = li
	return li
}

// regAllocs computes which Allocs are register-like (address never escapes: only loaded/stored).
func regAllocs(fn *ssa.Function) map[*ssa.Alloc]bool {
	out := map[*ssa.Alloc]bool{}
	for _, b := range fn.Blocks {
		for _, in := range b.Instrs {
			a, ok := in.(*ssa.Alloc)
			if !ok {
				continue
			}
			if _, isArr := a.Type().(*types.Pointer).Elem().Underlying().(*types.Array); isArr {
				continue
			}
			reg := true
			for _, r := range *a.Referrers() {
				switch x := r.(type) {
				case *ssa.UnOp:
					if x.Op != token.MUL {
						reg = false
					}
				case *ssa.Store:
					if x.Addr != a || x.Val == a {
						reg = false
					}
				case *ssa.DebugRef:
				default:
					reg = false
				}
			}
			if reg {
				out[a] = true
			}
		}
	}
	return out
}

// privateAllocs: locals that live in memory only because a DEFERRED closure of the same function captures them. Their
// address is never passed to a call nor stored anywhere else, and the closure runs at function exit only: no callee
// can write them, and a loop writes them only through the stores the loop itself contains.
func privateAllocs(fn *ssa.Function) map[*ssa.Alloc]bool {
	out := map[*ssa.Alloc]bool{}
	for _, b := range fn.Blocks {
		for _, in := range b.Instrs {
			a, ok := in.(*ssa.Alloc)
			if !ok {
				continue
			}
			priv, captured := true, false
			for _, r := range *a.Referrers() {
				switch x := r.(type) {
				case *ssa.UnOp:
					if x.Op != token.MUL {
						priv = false
					}
				case *ssa.Store:
					if x.Addr != a || x.Val == a {
						priv = false
					}
				case *ssa.DebugRef:
				case *ssa.MakeClosure:
					captured = true
					// the closure value may only be deferred
					for _, cr := range *x.Referrers() {
						if _, isDefer := cr.(*ssa.Defer); !isDefer {
							if _, isDbg := cr.(*ssa.DebugRef); !isDbg {
								priv = false
							}
						}
					}
					// inside the closure the variable is only loaded and stored
					cf := x.Fn.(*ssa.Function)
					for i, bnd := range x.Bindings {
						if bnd != ssa.Value(a) || i >= len(cf.FreeVars) {
							continue
						}
						for _, fr := range *cf.FreeVars[i].Referrers() {
							switch y := fr.(type) {
							case *ssa.UnOp:
								if y.Op != token.MUL {
									priv = false
								}
							case *ssa.Store:
								if y.Addr != ssa.Value(cf.FreeVars[i]) || y.Val == ssa.Value(cf.FreeVars[i]) {
									priv = false
								}
							case *ssa.DebugRef:
							default:
								priv = false
							}
						}
					}
				default:
					priv = false
				}
			}
			if priv && captured {
				out[a] = true
			}
		}
	}
	return out
}

func (u *Unit) newFrame(fn *ssa.Function, parent *frame) *frame {
	ra, ok := u.E.regAllocs[fn]
	if !ok {
		ra = regAllocs(fn)
		u.E.regAllocs[fn] = ra
	}
	return &frame{u: u, fn: fn, vals: map[ssa.Value]Val{}, isReg: ra, parent: parent, li: u.E.loopInfoOf(fn)}
}

// mergeStates joins edge states.
func (u *Unit) mergeStates(sts []*State) *State {
	c := u.C
	var live []*State
	for _, s := range sts {
		if !s.pc.IsFalse() {
			live = append(live, s)
		}
	}
	if len(live) == 0 {
		if len(sts) == 0 {
			return nil
		}
		return sts[0]
	}
	if len(live) == 1 {
		return live[0]
	}
	res := live[len(live)-1].clone()
	for i := len(live) - 2; i >= 0; i-- {
		s := live[i]
		cond := s.pc
		// cells
		keys := map[*ssa.Alloc]bool{}
		for k := range s.cells {
			keys[k] = true
		}
		for k := range res.cells {
			keys[k] = true
		}
		for k := range keys {
			a, aok := s.cells[k]
			b, bok := res.cells[k]
			if !aok {
				continue // not live on that path; keep other
			}
			if !bok {
				res.cells[k] = a
				continue
			}
			if !sameVal(a, b) {
				res.cells[k] = u.iteVal(cond, a, b)
			}
		}
		mk := map[string]bool{}
		for k := range s.mems {
			mk[k] = true
		}
		for k := range res.mems {
			mk[k] = true
		}
		for k := range mk {
			a := u.mem(s, k, kindSort(k))
			b := u.mem(res, k, kindSort(k))
			if a != b {
				res.mems[k] = u.MC.Ite(cond, a, b)
			}
		}
		res.pc = u.orPC(s.pc, res.pc)
	}
	_ = c
	return res
}

// orPC builds a disjunction factoring out common conjuncts.
func (u *Unit) orPC(a, b *Term) *Term {
	c := u.C
	ca, cb := conjuncts(a), conjuncts(b)
	inB := map[int]bool{}
	for _, x := range cb {
		inB[x.id] = true
	}
	var common, ra, rb []*Term
	inCommon := map[int]bool{}
	for _, x := range ca {
		if inB[x.id] {
			common = append(common, x)
			inCommon[x.id] = true
		} else {
			ra = append(ra, x)
		}
	}
	for _, x := range cb {
		if !inCommon[x.id] {
			rb = append(rb, x)
		}
	}
	return c.And(append(common, c.Or(c.And(ra...), c.And(rb...)))...)
}

// pcExtends reports whether every conjunct of old occurs in cur (cur implies old syntactically).
func pcExtends(cur, old *Term) bool {
	if old.IsTrue() || cur == old {
		return true
	}
	have := map[int]bool{}
	for _, x := range conjuncts(cur) {
		have[x.id] = true
	}
	for _, x := range conjuncts(old) {
		if !have[x.id] {
			return false
		}
	}
	return true
}

func conjuncts(t *Term) []*Term {
	if t.Op == OpAnd {
		return t.Args
	}
	if t.IsTrue() {
		return nil
	}
	return []*Term{t}
}

// runFunction executes fn from state st with the given arguments.
// Returns merged result values and the merged exit state (nil if no return is reachable).
func (u *Unit) runFunction(fr *frame, st *State, args []Val) ([]Val, *State) {
	fn := fr.fn
	if len(fn.Blocks) == 0 {
		unsupported("function %s has no body", fn)
	}
	u.callStack = append(u.callStack, fn)
	defer func() { u.callStack = u.callStack[:len(u.callStack)-1] }()
	for i, p := range fn.Params {
		fr.vals[p] = args[i]
	}
	for i, fv := range fn.FreeVars {
		fr.vals[fv] = fr.freeVal[i]
	}
	fr.entry = st
	fr.params = args
	incoming := map[*ssa.BasicBlock][]edge{fn.Blocks[0]: {{nil, st}}}
	var blocks []*ssa.BasicBlock
	for _, b := range fr.li.rpo {
		if b != fn.Recover {
			blocks = append(blocks, b)
		}
	}
	fr.runBlocks(blocks, incoming, nil)
	// recovered panics: every state that reached a panic (failed runtime check, explicit panic, a call that may panic)
	// continues with the deferred calls - the first of which recovers (shape checked) - and then with the function's
	// recover block, which returns the named results; postconditions therefore also cover these exits
	if fn.Recover != nil && len(fr.panics) > 0 && fr.bc != nil && fr.bc.Recovers && u.specMode == 0 {
		pst := u.mergeStates(fr.panics)
		if pst != nil && !pst.pc.IsFalse() {
			pst = pst.clone()
			fr.panics = nil
			u.panicking++
			fr.runDefers(pst)
			u.panicking--
			inc := map[*ssa.BasicBlock][]edge{fn.Recover: {{nil, pst}}}
			fr.runBlocks([]*ssa.BasicBlock{fn.Recover}, inc, nil)
		}
	}
	if len(fr.rets) == 0 {
		return nil, nil
	}
	// merge returns
	var sts []*State
	for _, r := range fr.rets {
		sts = append(sts, r.st)
	}
	out := u.mergeStates(sts)
	var vals []Val
	n := fn.Signature.Results().Len()
	for i := 0; i < n; i++ {
		var v Val
		first := true
		for j := len(fr.rets) - 1; j >= 0; j-- {
			r := fr.rets[j]
			if r.st.pc.IsFalse() {
				continue
			}
			if first {
				v = r.vals[i]
				first = false
			} else {
				v = u.iteVal(r.st.pc, r.vals[i], v)
			}
		}
		vals = append(vals, v)
	}
	return vals, out
}

// runBlocks executes the given blocks (in reverse postorder). cur is the loop whose body is being run (nil at top).
// Edges leaving the block set are appended to incoming of their targets (processed by the caller).
func (fr *frame) runBlocks(blocks []*ssa.BasicBlock, incoming map[*ssa.BasicBlock][]edge, cur *loop) (backEdges []edge) {
	u := fr.u
	skip := map[*ssa.BasicBlock]bool{}
	for _, b := range blocks {
		if skip[b] {
			continue
		}
		ins := incoming[b]
		if len(ins) == 0 {
			continue
		}
		// loop header of a nested loop?
		if l := fr.li.loops[b]; l != nil && l != cur {
			var sts []*State
			for _, e := range ins {
				sts = append(sts, e.st)
			}
			delete(incoming, b)
			fr.runLoop(l, ins, incoming)
			for bb := range l.blocks {
				skip[bb] = true
			}
			continue
		}
		var sts []*State
		for _, e := range ins {
			sts = append(sts, e.st)
		}
		st := u.mergeStates(sts)
		if st == nil || st.pc.IsFalse() {
			continue
		}
		if len(ins) > 1 || st == ins[0].st {
			st = st.clone()
		}
		fr.execBlock(b, st, ins, func(succ *ssa.BasicBlock, s *State) {
			if fr.li.back[[2]int{b.Index, succ.Index}] {
				backEdges = append(backEdges, edge{b, s})
				return
			}
			incoming[succ] = append(incoming[succ], edge{b, s})
		})
	}
	return backEdges
}

func (fr *frame) loopBlocksRPO(l *loop) []*ssa.BasicBlock {
	var out []*ssa.BasicBlock
	for _, b := range fr.li.rpo {
		if l.blocks[b] {
			out = append(out, b)
		}
	}
	return out
}

// ---- instruction execution -----------------------------------------------------------

func (fr *frame) get(v ssa.Value) Val {
	u := fr.u
	switch x := v.(type) {
	case *ssa.Const:
		return u.constVal(x)
	case *ssa.Function:
		return &FuncV{Fn: x}
	case *ssa.Global:
		return u.E.globalAddr(u, x)
	case *ssa.Builtin:
		return x
	}
	if r, ok := fr.vals[v]; ok {
		return r
	}
	unsupported("value %s (%T) not defined in %s", v.Name(), v, fr.fn)
	return nil
}

func (fr *frame) term(v ssa.Value) *Term {
	x := fr.get(v)
	t, ok := x.(*Term)
	if !ok {
		if fv, ok2 := x.(*FuncV); ok2 {
			return fr.u.funcTerm(fv)
		}
		unsupported("expected scalar for %s, got %T", v, x)
	}
	return t
}

func (fr *frame) execBlock(b *ssa.BasicBlock, st *State, ins []edge, emit func(*ssa.BasicBlock, *State)) {
	u := fr.u
	c := u.C
	for idx, in := range b.Instrs {
		fr.curBlk, fr.curIdx = b, idx
		u.steps++
		if u.steps > 200000 {
			unsupported("step budget exceeded")
		}
		switch x := in.(type) {
		case *ssa.Phi:
			var v Val
			first := true
			for i := len(x.Edges) - 1; i >= 0; i-- {
				pred := b.Preds[i]
				var est *State
				for _, e := range ins {
					if e.from == pred {
						est = e.st
					}
				}
				if est == nil || est.pc.IsFalse() {
					continue
				}
				ev := fr.get(x.Edges[i])
				if first {
					v = ev
					first = false
				} else {
					v = u.iteVal(est.pc, ev, v)
				}
			}
			fr.vals[x] = v
		case *ssa.If:
			cond := fr.term(x.Cond)
			s1 := st.clone()
			s1.pc = c.And(st.pc, cond)
			s2 := st
			s2.pc = c.And(st.pc, c.Not(cond))
			emit(b.Succs[0], s1)
			emit(b.Succs[1], s2)
			return
		case *ssa.Jump:
			emit(b.Succs[0], st)
			return
		case *ssa.Return:
			var vals []Val
			for _, r := range x.Results {
				vals = append(vals, fr.get(r))
			}
			fr.rets = append(fr.rets, retRec{st, vals})
			return
		case *ssa.Panic:
			fr.onPanic(st, x)
			return
		default:
			fr.execInstr(st, in)
			if st.pc.IsFalse() {
				return
			}
		}
	}
}

func (fr *frame) onPanic(st *State, x *ssa.Panic) {
	u := fr.u
	if rf := fr.recoverFrame(); rf != nil {
		rf.panics = append(rf.panics, st)
		return
	}
	name := "panic " + u.srcText(fr.fn, x.Pos(), "call")
	u.oblige(st, "safety", name, x.Pos(), u.C.False)
}

// recovers reports whether this frame (or an enclosing inlined frame's function) catches panics.
func (fr *frame) recovers() bool { return fr.recoverFrame() != nil }

// armed: panics raised at the current program point of this frame are caught by its deferred recover, i.e. the
// recovering defer statement has been executed on every path to this point (its block dominates the current block, or
// it stands earlier in the same block). Before that point a panic is an ordinary failure.
func (fr *frame) armed() bool {
	if !fr.armLooked {
		fr.armLooked = true
		fr.armDefer = recoveringDefer(fr.fn)
	}
	d := fr.armDefer
	if d == nil || fr.curBlk == nil {
		return d != nil
	}
	if d.Block() == fr.curBlk {
		for i, in := range fr.curBlk.Instrs {
			if in == ssa.Instruction(d) {
				return i < fr.curIdx
			}
		}
		return false
	}
	return d.Block().Dominates(fr.curBlk)
}

// recoverFrame: the nearest enclosing frame whose function recovers (and whose recover is armed at this point).
func (fr *frame) recoverFrame() *frame {
	for f := fr; f != nil; f = f.parent {
		if f.bc != nil && f.bc.Recovers && f.armed() {
			return f
		}
	}
	return nil
}

// safety emits a safety obligation unless panics are contained by a verified recover.
func (fr *frame) safety(st *State, kind string, pos token.Pos, want string, goal *Term) {
	u := fr.u
	if u.specMode > 0 {
		return
	}
	if rf := fr.recoverFrame(); rf != nil {
		// a failed check panics; the panic is caught by the recovering function: that path goes on at its deferred
		// calls (see runFunction), this one under the assumption that the check passed
		ps := st.clone()
		ps.pc = u.C.And(st.pc, u.C.Not(goal))
		if !ps.pc.IsFalse() {
			rf.panics = append(rf.panics, ps)
		}
		u.assume(st, goal)
		return
	}
	name := kind + " " + u.srcText(fr.fn, pos, want)
	if fr.parent != nil {
		name += " [in " + fr.fn.Name() + "]"
	}
	u.oblige(st, "safety", name, pos, goal)
	// continue under the assumption that the check passed
	u.assume(st, goal)
}

func (fr *frame) idx64(v ssa.Value) *Term {
	t := fr.term(v)
	w, signed, ok := intWidth(v.Type())
	if !ok {
		unsupported("index of type %s", v.Type())
	}
	if w == 64 {
		return t
	}
	if signed {
		return fr.u.C.SExt(t, 64)
	}
	return fr.u.C.ZExt(t, 64)
}

func (fr *frame) nilCheck(st *State, a *Term, pos token.Pos) {
	g := fr.u.C.Ne(a, fr.u.C.NilA)
	if g.IsTrue() {
		return
	}
	// already checked (and assumed) under a path condition that the current one extends?
	for _, pc := range fr.u.nilChecked[a.id] {
		if pcExtends(st.pc, pc) {
			return
		}
	}
	if fr.u.nilChecked == nil {
		fr.u.nilChecked = map[int][]*Term{}
	}
	fr.u.nilChecked[a.id] = append(fr.u.nilChecked[a.id], st.pc)
	fr.safety(st, "nil", pos, "deref", g)
}

func (fr *frame) execInstr(st *State, in ssa.Instruction) {
	u := fr.u
	c := u.C
	defer func() {
		if r := recover(); r != nil {
			if _, ok := r.(Unsupported); ok {
				panic(r)
			}
			if _, ok := r.(StaleContract); ok {
				panic(r)
			}
			if _, ok := r.(string); ok {
				panic(r)
			}
			// internal inconsistency while executing an instruction: report it as unsupported, with the instruction
			panic(Unsupported{fmt.Sprintf("%v at %s: %s", r, u.E.Fset.Position(in.Pos()), in)})
		}
	}()
	switch x := in.(type) {
	case *ssa.DebugRef:
	case *ssa.Alloc:
		t := x.Type().(*types.Pointer).Elem()
		if fr.isReg[x] {
			st.cells[x] = u.zeroVal(t)
			fr.vals[x] = CellRef{x}
			return
		}
		a := u.newObj()
		u.zeroInit(st, a, t)
		fr.vals[x] = a
		if fr.private == nil {
			fr.private = privateAllocs(fr.fn)
		}
		if fr.private[x] {
			if u.privateObj == nil {
				u.privateObj = map[int]bool{}
			}
			u.privateObj[a.K] = true
		}
	case *ssa.Store:
		if cr, ok := fr.get(x.Addr).(CellRef); ok {
			st.cells[cr.A] = fr.get(x.Val)
			return
		}
		a := fr.term(x.Addr)
		fr.nilCheck(st, a, x.Pos())
		fr.frameCheck(st, a, x.Val.Type(), x.Pos())
		u.store(st, a, x.Val.Type(), fr.get(x.Val))
	case *ssa.UnOp:
		fr.vals[x] = fr.unop(st, x)
	case *ssa.BinOp:
		fr.vals[x] = fr.binop(st, x)
	case *ssa.Convert:
		fr.vals[x] = fr.convert(st, x)
	case *ssa.ChangeType:
		fr.vals[x] = fr.get(x.X)
	case *ssa.ChangeInterface:
		fr.vals[x] = fr.get(x.X)
	case *ssa.MakeInterface:
		fr.vals[x] = u.makeIface(st, fr.get(x.X), x.X.Type())
	case *ssa.TypeAssert:
		fr.vals[x] = fr.typeAssert(st, x)
	case *ssa.FieldAddr:
		a := fr.term(x.X)
		fr.nilCheck(st, a, x.Pos())
		stt := structOf(x.X.Type().(*types.Pointer).Elem())
		fr.vals[x] = c.Fld(a, u.E.fieldID(stt, x.Field))
	case *ssa.Field:
		sv, ok := fr.get(x.X).(*StructV)
		if !ok {
			unsupported("field of %T", fr.get(x.X))
		}
		fr.vals[x] = sv.F[x.Field]
	case *ssa.IndexAddr:
		i := fr.idx64(x.Index)
		switch xt := x.X.Type().Underlying().(type) {
		case *types.Pointer:
			at := xt.Elem().Underlying().(*types.Array)
			a := fr.term(x.X)
			fr.nilCheck(st, a, x.Pos())
			fr.safety(st, "index", x.Pos(), "index", c.ULt(i, c.BVu(uint64(at.Len()), 64)))
			fr.vals[x] = c.Idx(a, i)
		case *types.Slice:
			sv := fr.get(x.X).(*SliceV)
			fr.safety(st, "index", x.Pos(), "index", c.ULt(i, sv.Len))
			fr.vals[x] = c.Idx(sv.Base, c.AddRaw(sv.Off, i))
		default:
			unsupported("IndexAddr on %s", x.X.Type())
		}
	case *ssa.Index:
		i := fr.idx64(x.Index)
		switch xv := fr.get(x.X).(type) {
		case *SliceV: // string
			fr.safety(st, "index", x.Pos(), "index", c.ULt(i, xv.Len))
			fr.vals[x] = u.readCell(st, "bv8", c.Idx(xv.Base, c.AddRaw(xv.Off, i)))
		case *ArrayV:
			fr.safety(st, "index", x.Pos(), "index", c.ULt(i, c.BVu(uint64(xv.T.Len()), 64)))
			if xv.Zero {
				fr.vals[x] = u.zeroVal(xv.T.Elem())
			} else {
				fr.vals[x] = u.load(xv.St, c.Idx(xv.Base, i), xv.T.Elem())
			}
		default:
			unsupported("Index on %T", xv)
		}
	case *ssa.Slice:
		fr.vals[x] = fr.sliceOp(st, x)
	case *ssa.MakeSlice:
		et := x.Type().Underlying().(*types.Slice).Elem()
		n := fr.idx64(x.Len)
		cp := fr.idx64(x.Cap)
		esz := u.E.Sizes.Sizeof(et)
		if esz < 1 {
			esz = 1
		}
		lim := c.BVu(uint64(maxLen/esz), 64)
		fr.safety(st, "makeslice", x.Pos(), "call", c.And(c.ULe(n, cp), c.ULe(cp, lim)))
		a := u.newObj()
		u.zeroArray(st, a, et, nil)
		fr.vals[x] = &SliceV{Base: a, Off: c.BVu(0, 64), Len: n, Cap: cp}
	case *ssa.Extract:
		tv, ok := fr.get(x.Tuple).(TupleV)
		if !ok {
			unsupported("extract from %T", fr.get(x.Tuple))
		}
		fr.vals[x] = tv[x.Index]
	case *ssa.Call:
		fr.assertsAtCall(st, x)
		fr.vals[x] = fr.call(st, &x.Call, x, x.Pos())
		fr.assumesAfterCall(st, x)
	case *ssa.Defer:
		var args []Val
		for _, a := range x.Call.Args {
			args = append(args, fr.get(a))
		}
		var fv Val
		if x.Call.Value != nil {
			fv = fr.get(x.Call.Value)
		}
		if len(fr.heads) > 0 {
			fr.deferInLoop(st, x, args, fv)
			break
		}
		fr.defers = append(fr.defers, deferRec{guard: st.pc, call: x, args: args, fnv: fv})
	case *ssa.RunDefers:
		fr.runDefers(st)
	case *ssa.Go:
		// spawn: no effect on this function's state (stated assumption); arguments are evaluated
		u.Trusted["go statement: spawned goroutine has no effect on the spawning function's state"] = true
	case *ssa.MakeClosure:
		fv := &FuncV{Fn: x.Fn.(*ssa.Function)}
		for _, b := range x.Bindings {
			fv.Free = append(fv.Free, fr.get(b))
		}
		fr.vals[x] = fv
	case *ssa.MakeMap, *ssa.MapUpdate, *ssa.Lookup, *ssa.Range, *ssa.Next:
		fr.mapInstr(st, in)
	case *ssa.MakeChan:
		// a channel is an opaque new object: nothing is known about what other goroutines send on it
		a := u.newObj()
		u.MC.Opaque[a.K] = true
		fr.vals[x] = a
	case *ssa.Select:
		// waiting on receive cases only: some case fires with an arbitrary value; while the function waits other
		// goroutines run - as for a go statement they are assumed not to touch this function's frame (listed)
		for _, sst := range x.States {
			if sst.Dir != types.RecvOnly {
				unsupported("select with a send case")
			}
		}
		u.Trusted["channel receive / select: the value received is arbitrary; goroutines running meanwhile do not write what this function reads"] = true
		fr.vals[x] = u.symVal(u.freshName("select"), x.Type(), false)
	default:
		unsupported("instruction %T (%s)", in, in)
	}
}

func (fr *frame) frameCheck(st *State, a *Term, t types.Type, pos token.Pos) {
	u := fr.u
	if u.specMode > 0 {
		return
	}
	if a.Op == OpIte {
		// an address that is one of two alternatives: each is checked under its condition
		s1 := st.clone()
		s1.pc = u.C.And(st.pc, a.Args[0])
		fr.frameCheck(s1, a.Args[1], t, pos)
		s2 := st.clone()
		s2.pc = u.C.And(st.pc, u.C.Not(a.Args[0]))
		fr.frameCheck(s2, a.Args[2], t, pos)
		return
	}
	freshID := 0
	if r, rk := addrRoot(a); rk == 1 && r.K > 0 {
		freshID = r.K // object allocated during this call
	} else if rk == 5 {
		return // anonymous array allocated by an earlier loop iteration: in no frame, contents unconstrained
	}
	// all leaf cells written
	check := func(reg *Region, kind, label string, minFresh int) {
		if reg == nil || reg.All {
			return
		}
		if freshID > minFresh {
			return // allocated after the frame in question was entered
		}
		var goals []*Term
		for _, lf := range u.leaves(t, nil) {
			if lf.kind == "array" {
				continue
			}
			goals = append(goals, reg.Contains(u, lf.kind, u.MC.withSuffix(a, lf.path)))
		}
		g := u.C.And(goals...)
		name := label + " " + u.srcText(fr.fn, pos, "")
		if fr.parent != nil {
			name += " [in " + fr.fn.Name() + "]"
		}
		u.oblige(st, kind, name, pos, g)
	}
	check(u.fnRegion, "frame", "write", 0)
	for _, lr := range u.loopRegion {
		check(lr.region, "loopframe", lr.name+" write", lr.minFresh)
	}
}

func (u *Unit) makeIface(st *State, v Val, t types.Type) Val {
	c := u.C
	if _, ok := t.Underlying().(*types.Interface); ok {
		return v
	}
	tag := c.BVu(uint64(u.E.typeID(t)), 32)
	switch t.Underlying().(type) {
	case *types.Pointer, *types.Map, *types.Chan, *types.Signature:
		if tv, ok := v.(*Term); ok {
			return &IfaceV{Tag: tag, Ptr: tv}
		}
		if fv, ok := v.(*FuncV); ok {
			return &IfaceV{Tag: tag, Ptr: u.funcTerm(fv)}
		}
	}
	box := u.newObj()
	u.store(st, box, t, v)
	return &IfaceV{Tag: tag, Ptr: box}
}

func (fr *frame) typeAssert(st *State, x *ssa.TypeAssert) Val {
	u := fr.u
	c := u.C
	iv, ok := fr.get(x.X).(*IfaceV)
	if !ok {
		unsupported("type assert on %T", fr.get(x.X))
	}
	var okT *Term
	var val Val
	if _, isIface := x.AssertedType.Underlying().(*types.Interface); isIface {
		name := c.DeclareUF(fmt.Sprintf("implements_%d", u.E.typeID(x.AssertedType)), []Sort{BV(32)}, SBool)
		okT = c.And(c.Ne(iv.Tag, c.BVu(0, 32)), c.App(name, SBool, iv.Tag))
		// facts from the type checker for every concrete type seen so far
		for id, ct := range u.E.typeByID {
			if _, isI := ct.Underlying().(*types.Interface); isI {
				continue
			}
			u.assumeGlobal(c.Eq(c.App(name, SBool, c.BVu(uint64(id), 32)), c.Bool(types.Implements(ct, x.AssertedType.Underlying().(*types.Interface)))))
		}
		if it := x.AssertedType.Underlying().(*types.Interface); it.NumMethods() == 0 {
			okT = c.Ne(iv.Tag, c.BVu(0, 32))
		}
		val = iv
	} else {
		okT = c.Eq(iv.Tag, c.BVu(uint64(u.E.typeID(x.AssertedType)), 32))
		switch x.AssertedType.Underlying().(type) {
		case *types.Pointer, *types.Map, *types.Chan, *types.Signature:
			val = iv.Ptr
		default:
			val = u.load(st, iv.Ptr, x.AssertedType)
		}
	}
	if x.CommaOk {
		return TupleV{u.iteVal(okT, val, u.zeroVal(x.AssertedType)), okT}
	}
	fr.safety(st, "typeassert", x.Pos(), "assert", okT)
	return val
}

func (fr *frame) sliceOp(st *State, x *ssa.Slice) Val {
	u := fr.u
	c := u.C
	var base, off, ln, cp *Term
	str := false
	switch xt := x.X.Type().Underlying().(type) {
	case *types.Pointer:
		at := xt.Elem().Underlying().(*types.Array)
		a := fr.term(x.X)
		fr.nilCheck(st, a, x.Pos())
		base, off = a, c.BVu(0, 64)
		ln = c.BVu(uint64(at.Len()), 64)
		cp = ln
	case *types.Slice:
		sv := fr.get(x.X).(*SliceV)
		base, off, ln, cp = sv.Base, sv.Off, sv.Len, sv.Cap
	case *types.Basic:
		sv := fr.get(x.X).(*SliceV)
		base, off, ln, cp = sv.Base, sv.Off, sv.Len, sv.Len
		str = true
	default:
		unsupported("slice of %s", x.X.Type())
	}
	lo := c.BVu(0, 64)
	if x.Low != nil {
		lo = fr.idx64(x.Low)
	}
	var hi *Term
	if x.High != nil {
		hi = fr.idx64(x.High)
	} else {
		hi = ln
	}
	mx := cp
	var g *Term
	if x.Max != nil {
		mx = fr.idx64(x.Max)
		g = c.And(c.ULe(mx, cp), c.ULe(hi, mx), c.ULe(lo, hi))
	} else {
		g = c.And(c.ULe(hi, cp), c.ULe(lo, hi))
	}
	fr.safety(st, "slice", x.Pos(), "slice", g)
	r := &SliceV{Str: str, Base: base, Off: c.AddRaw(off, lo), Len: c.Sub(hi, lo), Cap: c.Sub(mx, lo)}
	if str {
		r.Cap = r.Len
	}
	return r
}

func (fr *frame) unop(st *State, x *ssa.UnOp) Val {
	u := fr.u
	c := u.C
	switch x.Op {
	case token.MUL:
		av := fr.get(x.X)
		if cr, ok := av.(CellRef); ok {
			v, ok := st.cells[cr.A]
			if !ok {
				unsupported("read of uninitialised cell %s", cr.A.Comment)
			}
			return v
		}
		a := av.(*Term)
		if g, ok := x.X.(*ssa.Global); ok && u.E.roGlobals[g.Pkg.Pkg.Path()+"."+g.Name()] {
			// a read-only package variable initialised with a function (var F = pkg.F) denotes that function
			if gi := u.E.globalInitOf(g); gi.ok && gi.fn != nil {
				u.Trusted["read-only global "+g.Pkg.Pkg.Path()+"."+g.Name()+": bound to "+gi.fn.String()+" by its initialiser (no writer found by scan of the package)"] = true
				return &FuncV{Fn: gi.fn}
			}
			// any other variable declared read-only (no writer found by the scan of its package) has, in every state, the
			// value it had at entry - the same reading as in contracts (specEnv.loadGlobal)
			if why := u.E.globalWritten(g); why == "" {
				u.Trusted["read-only global "+g.Pkg.Pkg.Path()+"."+g.Name()+": same value in every state (no writer found by scan of its package)"] = true
				return u.load(&State{pc: c.True, cells: map[*ssa.Alloc]Val{}, mems: map[string]*Mem{}}, a, x.Type())
			}
		}
		fr.nilCheck(st, a, x.Pos())
		return u.load(st, a, x.Type())
	case token.ARROW:
		// channel receive: an arbitrary value (see ssa.Select above)
		u.Trusted["channel receive / select: the value received is arbitrary; goroutines running meanwhile do not write what this function reads"] = true
		return u.symVal(u.freshName("recv"), x.Type(), false)
	case token.NOT:
		return c.Not(fr.term(x.X))
	case token.SUB:
		if isFloat(x.Type()) {
			return fr.floatOp("fneg", x.Type(), fr.term(x.X))
		}
		return c.Neg(fr.term(x.X))
	case token.XOR:
		return c.BNot(fr.term(x.X))
	}
	unsupported("unop %s", x.Op)
	return nil
}

func (fr *frame) floatOp(name string, res types.Type, args ...*Term) *Term {
	c := fr.u.C
	var ss []Sort
	for _, a := range args {
		ss = append(ss, a.S)
	}
	_, rs, _ := scalarKind(res)
	n := c.DeclareUF(fmt.Sprintf("%s_%d", name, rs.W), ss, rs)
	fr.u.Trusted["floating-point operations are uninterpreted functions"] = true
	return c.App(n, rs, args...)
}

func (fr *frame) binop(st *State, x *ssa.BinOp) Val {
	u := fr.u
	c := u.C
	xt := x.X.Type()
	// comparisons on non-integers
	if x.Op == token.EQL || x.Op == token.NEQ {
		eq := u.valEq(st, fr.get(x.X), fr.get(x.Y), xt)
		if x.Op == token.NEQ {
			return c.Not(eq)
		}
		return eq
	}
	if isString(xt) {
		if x.Op == token.ADD {
			return u.strConcat(st, fr.get(x.X).(*SliceV), fr.get(x.Y).(*SliceV))
		}
		unsupported("string operator %s", x.Op)
	}
	a, b := fr.term(x.X), fr.term(x.Y)
	if isBool(xt) {
		switch x.Op {
		case token.AND, token.LAND:
			return c.And(a, b)
		case token.OR, token.LOR:
			return c.Or(a, b)
		}
	}
	if isFloat(xt) {
		fr.u.Trusted["floating-point operations are uninterpreted functions"] = true
		switch x.Op {
		case token.LSS, token.LEQ, token.GTR, token.GEQ:
			n := c.DeclareUF(fmt.Sprintf("fcmp_%s_%d", strings.ToLower(x.Op.String()), a.S.W), []Sort{a.S, b.S}, SBool)
			m := map[token.Token]string{token.LSS: "flt", token.LEQ: "fle", token.GTR: "fgt", token.GEQ: "fge"}
			n = c.DeclareUF(fmt.Sprintf("%s_%d", m[x.Op], a.S.W), []Sort{a.S, b.S}, SBool)
			return c.App(n, SBool, a, b)
		}
		m := map[token.Token]string{token.ADD: "fadd", token.SUB: "fsub", token.MUL: "fmul", token.QUO: "fdiv"}
		return fr.floatOp(m[x.Op], x.Type(), a, b)
	}
	w, signed, ok := intWidth(xt)
	if !ok {
		unsupported("binop %s on %s", x.Op, xt)
	}
	_ = w
	switch x.Op {
	case token.ADD:
		return c.Add(a, b)
	case token.SUB:
		return c.Sub(a, b)
	case token.MUL:
		return c.Mul(a, b)
	case token.QUO, token.REM:
		fr.safety(st, "divide", x.Pos(), "binary", c.Ne(b, c.BVu(0, b.S.W)))
		if signed {
			if x.Op == token.QUO {
				return c.SDiv(a, b)
			}
			return c.SRem(a, b)
		}
		if x.Op == token.QUO {
			return c.UDiv(a, b)
		}
		return c.URem(a, b)
	case token.AND:
		return c.BAnd(a, b)
	case token.OR:
		return c.BOr(a, b)
	case token.XOR:
		return c.BXor(a, b)
	case token.AND_NOT:
		return c.BAnd(a, c.BNot(b))
	case token.SHL, token.SHR:
		return fr.shift(st, x, a, b, signed)
	case token.LSS:
		if signed {
			return c.SLt(a, b)
		}
		return c.ULt(a, b)
	case token.LEQ:
		if signed {
			return c.SLe(a, b)
		}
		return c.ULe(a, b)
	case token.GTR:
		if signed {
			return c.SLt(b, a)
		}
		return c.ULt(b, a)
	case token.GEQ:
		if signed {
			return c.SLe(b, a)
		}
		return c.ULe(b, a)
	}
	unsupported("binop %s", x.Op)
	return nil
}

// shiftTerm implements Go shift semantics for value a (width w) by count b (any width, signedness bsigned).
func (u *Unit) shiftTerm(op token.Token, a, b *Term, asigned bool) *Term {
	c := u.C
	w := a.S.W
	// clamp count to w, in a's width
	var cnt *Term
	if b.S.W > w {
		big := c.ULe(c.BVu(uint64(w), b.S.W), b)
		cnt = c.Ite(big, c.BVu(uint64(w), w), c.Extract(b, w-1, 0))
	} else {
		cnt = c.ZExt(b, w)
		if b.S.W == w {
			cnt = c.Ite(c.ULe(c.BVu(uint64(w), w), b), c.BVu(uint64(w), w), b)
		}
	}
	if op == token.SHL {
		return c.Shl(a, cnt)
	}
	if asigned {
		return c.AShr(a, cnt)
	}
	return c.LShr(a, cnt)
}

func (fr *frame) shift(st *State, x *ssa.BinOp, a, b *Term, asigned bool) Val {
	_, bsigned, _ := intWidth(x.Y.Type())
	if bsigned {
		fr.safety(st, "shift", x.Pos(), "binary", fr.u.C.SLe(fr.u.C.BVu(0, b.S.W), b))
	}
	return fr.u.shiftTerm(x.Op, a, b, asigned)
}

func (u *Unit) valEq(st *State, a, b Val, t types.Type) *Term {
	c := u.C
	switch x := a.(type) {
	case *Term:
		switch y := b.(type) {
		case *Term:
			if isFloat(t) {
				n := c.DeclareUF(fmt.Sprintf("feq_%d", x.S.W), []Sort{x.S, y.S}, SBool)
				return c.App(n, SBool, x, y)
			}
			return c.Eq(x, y)
		case *FuncV:
			return c.Eq(x, u.funcTerm(y))
		}
	case *FuncV:
		switch y := b.(type) {
		case *Term:
			return c.Eq(u.funcTerm(x), y)
		case *FuncV:
			return c.Eq(u.funcTerm(x), u.funcTerm(y))
		}
	case *IfaceV:
		switch y := b.(type) {
		case *IfaceV:
			if y.Tag.IsConst() && y.Tag.V.Sign() == 0 {
				return c.Eq(x.Tag, y.Tag)
			}
			if x.Tag.IsConst() && x.Tag.V.Sign() == 0 {
				return c.Eq(x.Tag, y.Tag)
			}
			return c.And(c.Eq(x.Tag, y.Tag), c.Eq(x.Ptr, y.Ptr))
		}
	case *SliceV:
		y, ok := b.(*SliceV)
		if ok && x.Str {
			return u.strEq(st, x, y)
		}
		if ok { // slice == nil
			if y.Base.Op == OpNil {
				return c.Eq(x.Base, c.NilA)
			}
			if x.Base.Op == OpNil {
				return c.Eq(y.Base, c.NilA)
			}
		}
	case *StructV:
		y, ok := b.(*StructV)
		if ok {
			var cs []*Term
			for i := range x.F {
				cs = append(cs, u.valEq(st, x.F[i], y.F[i], x.T.Field(i).Type()))
			}
			return c.And(cs...)
		}
	}
	unsupported("equality of %T and %T", a, b)
	return nil
}

// strEq: string equality. Equal headers are equal strings; constant strings compare byte-wise;
// otherwise an uninterpreted predicate over the (immutable) contents with length congruence.
func (u *Unit) strEq(st *State, x, y *SliceV) *Term {
	c := u.C
	if x.Base == y.Base && x.Off == y.Off && x.Len == y.Len {
		return c.True
	}
	lenEq := c.Eq(x.Len, y.Len)
	if lenEq.IsFalse() {
		return c.False
	}
	// byte-wise when one side has a small constant length
	n := -1
	if x.Len.IsConst() && x.Len.V.IsInt64() && x.Len.V.Int64() <= 64 {
		n = int(x.Len.V.Int64())
	} else if y.Len.IsConst() && y.Len.V.IsInt64() && y.Len.V.Int64() <= 64 {
		n = int(y.Len.V.Int64())
	}
	if n >= 0 {
		cs := []*Term{lenEq}
		if st == nil {
			st = &State{mems: map[string]*Mem{}}
		}
		for i := 0; i < n; i++ {
			k := c.BVu(uint64(i), 64)
			cs = append(cs, c.Eq(u.readCell(st, "bv8", c.Idx(x.Base, c.Add(x.Off, k))), u.readCell(st, "bv8", c.Idx(y.Base, c.Add(y.Off, k)))))
		}
		return c.And(cs...)
	}
	name := c.DeclareUF("streq", []Sort{SAddr, BV(64), BV(64), SAddr, BV(64), BV(64)}, SBool)
	e := c.App(name, SBool, x.Base, x.Off, x.Len, y.Base, y.Off, y.Len)
	u.assumeGlobal(c.Implies(e, lenEq))
	// definition: equal strings have equal lengths and equal bytes (string contents are immutable)
	if st == nil {
		st = &State{mems: map[string]*Mem{}}
	}
	k := c.BoundVar("si", BV(64))
	bytesEq := c.Forall([]*Term{k}, c.Implies(c.ULt(k, x.Len),
		c.Eq(u.readCell(st, "bv8", c.Idx(x.Base, c.AddRaw(x.Off, k))), u.readCell(st, "bv8", c.Idx(y.Base, c.AddRaw(y.Off, k))))))
	u.assumeGlobal(c.Eq(e, c.And(lenEq, bytesEq)))
	return e
}

func (u *Unit) strConcat(st *State, x, y *SliceV) Val {
	c := u.C
	a := u.newObj()
	n := c.Add(x.Len, y.Len)
	m := u.mem(st, "bv8", BV(8))
	m2 := u.MC.Copy(m, a, c.BVu(0, 64), m, x.Base, x.Off, x.Len, nil)
	m3 := u.MC.Copy(m2, a, x.Len, m, y.Base, y.Off, y.Len, nil)
	st.mems["bv8"] = m3
	return &SliceV{Str: true, Base: a, Off: c.BVu(0, 64), Len: n, Cap: n}
}

func (fr *frame) convert(st *State, x *ssa.Convert) Val {
	u := fr.u
	c := u.C
	from, to := x.X.Type(), x.Type()
	v := fr.get(x.X)
	fw, fsigned, fint := intWidth(from)
	tw, _, tint := intWidth(to)
	switch {
	case fint && tint:
		t := v.(*Term)
		if tw <= fw {
			return c.Extract(t, tw-1, 0)
		}
		if fsigned {
			return c.SExt(t, tw)
		}
		return c.ZExt(t, tw)
	case fint && isFloat(to):
		nm := "i2f"
		if !fsigned {
			nm = "u2f"
		}
		return fr.floatOp(fmt.Sprintf("%s%d", nm, fw), to, v.(*Term))
	case isFloat(from) && tint:
		u.Trusted["floating-point operations are uninterpreted functions"] = true
		n := c.DeclareUF(fmt.Sprintf("f2i_%d_%d", v.(*Term).S.W, tw), []Sort{v.(*Term).S}, BV(tw))
		return c.App(n, BV(tw), v.(*Term))
	case isFloat(from) && isFloat(to):
		if v.(*Term).S.W == 64 && basicOf(to).Kind() != types.Float32 {
			return v
		}
		return fr.floatOp("f2f", to, v.(*Term))
	case isString(from) && isString(to):
		return v
	}
	// []byte <-> string: a copy in a fresh object
	if sv, ok := v.(*SliceV); ok {
		_, toSlice := to.Underlying().(*types.Slice)
		if (isString(from) && toSlice) || (isString(to) && !isString(from)) {
			a := u.newObj()
			m := u.mem(st, "bv8", BV(8))
			st.mems["bv8"] = u.MC.Copy(m, a, c.BVu(0, 64), m, sv.Base, sv.Off, sv.Len, nil)
			return &SliceV{Str: isString(to), Base: a, Off: c.BVu(0, 64), Len: sv.Len, Cap: sv.Len}
		}
	}
	if _, ok := to.Underlying().(*types.Pointer); ok {
		if _, ok2 := from.Underlying().(*types.Pointer); ok2 {
			return v
		}
	}
	unsupported("convert %s -> %s", from, to)
	return nil
}

// deferInLoop: "defer f(args)" inside a loop verified by invariant. The callee must have a contract whose frame consists of
// ghost cells. Its precondition is an obligation at the defer statement, again at the end of the registering iteration
// (back edges) and at function exit for the iteration that leaves the loop; that LATER iterations keep it is assumed
// (listed). At function exit the pending calls of all iterations run: their joint effect is the havoc of the named ghost
// fields on every object (a superset of any number of calls with any arguments); nothing is assumed of their postconditions.
func (fr *frame) deferInLoop(st *State, x *ssa.Defer, args []Val, fv Val) {
	u := fr.u
	cc := &x.Call
	var bc *BoundContract
	var full []Val
	key := ""
	if cc.IsInvoke() {
		recv, _ := fv.(*IfaceV)
		if recv == nil {
			unsupported("defer inside a loop: receiver %T", fv)
		}
		key = "(" + types.TypeString(types.Unalias(cc.Value.Type()), nil) + ")." + cc.Method.Name()
		bc = u.E.externFor(u.Fn, key)
		full = append([]Val{recv}, args...)
	} else if f, ok := fv.(*FuncV); ok && f.Fn != nil && len(f.Free) == 0 {
		key = fnKey(f.Fn)
		if f.Fn.Pkg != nil && u.Fn != nil && u.Fn.Pkg != nil && f.Fn.Pkg != u.Fn.Pkg {
			bc = u.E.externFor(u.Fn, key)
		}
		if bc == nil {
			bc = u.E.contractFor(f.Fn)
		}
		if bc == nil {
			bc = u.E.externFor(u.Fn, key)
		}
		full = args
	}
	if bc == nil {
		unsupported("defer inside a loop: the deferred callee %s has no contract", key)
	}
	if bc.ModifiesAll || !ghostOnlyFrame(bc.Modifies) {
		unsupported("defer inside a loop: the frame of %s is not made of ghost cells", key)
	}
	u.Trusted["call deferred inside a loop ("+key+" in "+fr.fn.Name()+"): precondition checked at the defer statement, at the end of the registering iteration and at exit; assumed to survive later iterations"] = true
	d := deferRec{guard: st.pc, call: x, args: args, fnv: fv, inLoop: true, bc: bc, full: full, key: key}
	fr.checkDeferredPre(st, d, "requires@defer")
	fr.defers = append(fr.defers, d)
}

func (fr *frame) checkDeferredPre(st *State, d deferRec, kind string) {
	u := fr.u
	if u.specMode > 0 {
		return
	}
	g := u.C.And(st.pc, d.guard)
	if g.IsFalse() {
		return
	}
	s1 := st.clone()
	s1.pc = g
	env := u.newSpecEnv(d.bc, s1, s1, d.full, nil)
	site := u.srcText(fr.fn, d.call.Pos(), "defer")
	for _, rq := range d.bc.Requires {
		u.oblige(s1, kind, fmt.Sprintf("%s requires %s", site, rq.Text()), d.call.Pos(), env.evalBool(rq.Expr))
	}
}

// ghostOnlyFrame: every item of a modifies clause is a ghost cell (ghostInt/ghostBool/held/misc/ghostAll)
func ghostOnlyFrame(items []ast.Expr) bool {
	for _, it := range items {
		call, ok := it.(*ast.CallExpr)
		if !ok {
			return false
		}
		id, ok := call.Fun.(*ast.Ident)
		if !ok {
			return false
		}
		switch id.Name {
		case "ghostInt", "ghostBool", "held", "misc", "ghostAll":
		default:
			return false
		}
	}
	return true
}

// havocDeferredInLoop: the effect of all pending calls registered by the iterations of the loop
func (fr *frame) havocDeferredInLoop(st *State, d deferRec) {
	u := fr.u
	c := u.C
	env := u.newSpecEnv(d.bc, st, st, d.full, nil)
	r := NewRegion()
	for _, it := range d.bc.Modifies {
		call := it.(*ast.CallExpr)
		fid := 0
		switch call.Fun.(*ast.Ident).Name {
		case "held":
			fid = fGhostHeld
		case "misc":
			fid = fGhostMisc
		case "ghostAll":
			fid = env.ghostField(call.Args[0])
		default:
			fid = env.ghostField(call.Args[1])
		}
		f := fid
		for _, k := range []string{"bv64", "bool"} {
			r.add(k, func(a *Term) *Term { return c.FldIdIs(a, f) })
		}
	}
	fr.checkSubRegion(st, r, u.srcText(fr.fn, d.call.Pos(), "defer"), d.call.Pos())
	u.havocRegion(st, r, d.key)
}

func (fr *frame) runDefers(st *State) {
	u := fr.u
	for i := len(fr.defers) - 1; i >= 0; i-- {
		d := fr.defers[i]
		if d.inLoop {
			fr.checkDeferredPre(st, d, "requires@exit")
			fr.havocDeferredInLoop(st, d)
			continue
		}
		// run under guard: split state
		g := u.C.And(st.pc, d.guard)
		if g.IsFalse() {
			continue
		}
		if g == st.pc {
			fr.callCommon(st, &d.call.Call, d.args, d.fnv, d.call.Pos(), nil)
			continue
		}
		s1 := st.clone()
		s1.pc = g
		fr.callCommon(s1, &d.call.Call, d.args, d.fnv, d.call.Pos(), nil)
		s2 := st.clone()
		s2.pc = u.C.And(st.pc, u.C.Not(d.guard))
		m := u.mergeStates([]*State{s1, s2})
		*st = *m.clone()
	}
}

// assertsAtCall emits the "assert[call:Name]" clauses of the function under verification before a
// call whose callee (function or method) has that name.
func (fr *frame) assertsAtCall(st *State, x *ssa.Call) {
	// the clauses belong to the function under verification (the top frame); they are also checked before matching
	// calls made by callees executed in place (inlined helpers, deferred closures), evaluated over the top function's
	// locals at its current program point: moving a guarded call into a helper does not take it out of the clause
	if fr.u.specMode > 0 {
		return
	}
	inl := fr
	for fr != nil && !fr.top {
		fr = fr.parent
	}
	if fr == nil || fr.bc == nil || len(fr.bc.Asserts) == 0 {
		return
	}
	inlined := inl != fr
	name, qual, short := "", "", ""
	byName := func(p *types.Package) string { return p.Name() }
	if x.Call.IsInvoke() {
		name = x.Call.Method.Name()
		qual = types.TypeString(types.Unalias(x.Call.Value.Type()), nil) + "." + name
		short = types.TypeString(types.Unalias(x.Call.Value.Type()), byName) + "." + name // websocket.Conn.Write
	} else if f := x.Call.StaticCallee(); f != nil {
		name = f.Name()
		qual = f.String()
	} else if ld, ok := x.Call.Value.(*ssa.UnOp); ok && ld.Op == token.MUL {
		if g, ok := ld.X.(*ssa.Global); ok { // call through a package-level function variable
			name = g.Name()
			qual = g.Pkg.Pkg.Path() + "." + g.Name()
		}
	}
	if name == "" {
		return
	}
	var env *specEnv
	for _, as := range fr.bc.Asserts {
		if as.Clause.Name != "call:"+name && as.Clause.Name != "call:"+qual && (short == "" || as.Clause.Name != "call:"+short) {
			continue
		}
		if fr.u.assertHit == nil {
			fr.u.assertHit = map[*Clause]bool{}
		}
		fr.u.assertHit[as.Clause] = true
		if env == nil {
			env = fr.specEnv(fr.bc, st)
			env.ctx = x.Block()
			if inlined {
				env.ctx = fr.curBlk
			}
		}
		g := env.evalBool(as.Expr)
		if as.Clause.Kind == "assume" {
			// an assumed fact at a program point (e.g. a map invariant relating the iterated key and value): listed
			fr.u.Trusted["assumed at call "+name+" in "+fr.fn.Name()+": "+strings.Join(strings.Fields(as.Clause.Text), " ")] = true
			fr.u.assume(st, g)
			continue
		}
		lbl := "at call " + name
		if inlined {
			lbl += " [in " + inl.fn.Name() + "]"
		}
		fr.u.oblige(st, "assert", lbl+": "+strings.Join(strings.Fields(as.Clause.Text), " "), x.Pos(), g)
		_ = g // asserted facts are not added as hypotheses: each assert stands alone and later queries stay small
	}
}

// assumesAfterCall adds the "assume[after:Name]" clauses of the function under verification after a call whose callee
// has that name: an assumed fact about what the call left unchanged (listed in the trusted base).
func (fr *frame) assumesAfterCall(st *State, x *ssa.Call) {
	if !fr.top || fr.bc == nil || len(fr.bc.Asserts) == 0 || fr.u.specMode > 0 {
		return
	}
	name := ""
	if x.Call.IsInvoke() {
		name = x.Call.Method.Name()
	} else if f := x.Call.StaticCallee(); f != nil {
		name = f.Name()
	} else if ld, ok := x.Call.Value.(*ssa.UnOp); ok && ld.Op == token.MUL {
		if g, ok := ld.X.(*ssa.Global); ok {
			name = g.Name()
		}
	}
	if name == "" {
		return
	}
	var env *specEnv
	for _, as := range fr.bc.Asserts {
		if as.Clause.Kind != "assume" || as.Clause.Name != "after:"+name {
			continue
		}
		if fr.u.assertHit == nil {
			fr.u.assertHit = map[*Clause]bool{}
		}
		fr.u.assertHit[as.Clause] = true
		if env == nil {
			env = fr.specEnv(fr.bc, st)
			env.ctx = x.Block()
		}
		fr.u.Trusted["assumed after call "+name+" in "+fr.fn.Name()+": "+strings.Join(strings.Fields(as.Clause.Text), " ")] = true
		fr.u.assume(st, env.evalBool(as.Expr))
	}
}
