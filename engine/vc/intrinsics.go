package vc

import (
	"go/token"
	"go/types"

	"golang.org/x/tools/go/ssa"
)

// Native models of a few standard-library operations (assumed, listed in the trusted base):
// io.Writer.Write and bytes.Buffer as ghost byte sequences out(w).

func (e *Engine) registerIntrinsics() {
	e.intrinsics["(io.Writer).Write"] = intrWriterWrite
	e.intrinsics["(net.Conn).Write"] = intrWriterWrite // net.Conn embeds io.Writer: same assumed model
	e.intrinsics["(*bytes.Buffer).Write"] = intrBufferWrite
	e.intrinsics["(*bytes.Buffer).Reset"] = intrBufferReset
	e.intrinsics["(*bytes.Buffer).Bytes"] = intrBufferBytes
	e.intrinsics["(*bytes.Buffer).Len"] = intrBufferLen
	e.intrinsics["(*bytes.Buffer).WriteByte"] = intrBufferWriteByte
	e.intrinsics["(*bytes.Buffer).Cap"] = intrBufferCap
}

func identOf(v Val) *Term {
	switch x := v.(type) {
	case *Term:
		return x
	case *IfaceV:
		return x.Ptr
	}
	unsupported("identity of %T", v)
	return nil
}

func (u *Unit) ghostOutBase(id *Term) (*Term, *Term) {
	base := u.C.Fld(id, fGhostOut)
	return base, u.C.Fld(base, fGhostLen)
}

// ghostAppend: out(id) ++= src[:k]
func (fr *frame) ghostAppend(st *State, id *Term, src *SliceV, k *Term, pos token.Pos) {
	u := fr.u
	c := u.C
	base, lenCell := u.ghostOutBase(id)
	oldLen := u.readCell(st, "bv64", lenCell)
	u.assumeGlobal(c.ULe(oldLen, c.BVu(1<<56, 64)))
	// frame checks: the ghost cells must be inside the declared frames
	fr.frameCheck(st, lenCell, types.Typ[types.Int], pos)
	m := u.mem(st, "bv8", BV(8))
	st.mems["bv8"] = u.MC.Copy(m, base, oldLen, m, src.Base, src.Off, k, nil)
	u.writeCell(st, "bv64", lenCell, c.Add(oldLen, k))
}

func errorVal(u *Unit, name string) *IfaceV {
	return &IfaceV{Tag: u.C.Var(u.freshName(name+".tag"), BV(32)), Ptr: u.C.Var(u.freshName(name+".ptr"), SAddr)}
}

func intrWriterWrite(fr *frame, st *State, fn *ssa.Function, args []Val, pos token.Pos) Val {
	u := fr.u
	c := u.C
	u.Trusted["assumed model of io.Writer.Write: on success appends exactly p to the ghost sequence out(w) and returns len(p); on error appends some prefix of p; p is not modified"] = true
	id := identOf(args[0])
	p := args[1].(*SliceV)
	err := errorVal(u, "werr")
	k := c.Fresh("wn", BV(64))
	ok := c.Eq(err.Tag, c.BVu(0, 32))
	u.assumeGlobal(c.And(c.ULe(k, p.Len), c.Implies(ok, c.Eq(k, p.Len))))
	fr.ghostAppend(st, id, p, k, pos)
	return TupleV{k, err}
}

func intrBufferWrite(fr *frame, st *State, fn *ssa.Function, args []Val, pos token.Pos) Val {
	u := fr.u
	c := u.C
	u.Trusted["assumed model of bytes.Buffer: Write appends p to the ghost sequence out(b) and returns (len(p), nil); Reset empties it; Bytes returns its contents"] = true
	id := identOf(args[0])
	fr.nilCheck(st, id, pos)
	p := args[1].(*SliceV)
	fr.ghostAppend(st, id, p, p.Len, pos)
	ncap := c.Fresh("bufcap", BV(64))
	_, lenCell := u.ghostOutBase(id)
	u.assumeGlobal(c.And(c.ULe(u.readCell(st, "bv64", lenCell), ncap), c.ULe(ncap, c.BVu(1<<56, 64)), c.Implies(c.Ne(p.Len, c.BVu(0, 64)), c.Ne(ncap, c.BVu(0, 64)))))
	u.writeCell(st, "bv64", c.Fld(id, fGhostCap), ncap)
	return TupleV{p.Len, &IfaceV{Tag: c.BVu(0, 32), Ptr: c.NilA}}
}

func intrBufferWriteByte(fr *frame, st *State, fn *ssa.Function, args []Val, pos token.Pos) Val {
	u := fr.u
	c := u.C
	id := identOf(args[0])
	fr.nilCheck(st, id, pos)
	base, lenCell := u.ghostOutBase(id)
	oldLen := u.readCell(st, "bv64", lenCell)
	fr.frameCheck(st, lenCell, types.Typ[types.Int], pos)
	u.writeCell(st, "bv8", c.Idx(base, oldLen), args[1].(*Term))
	u.writeCell(st, "bv64", lenCell, c.Add(oldLen, c.BVu(1, 64)))
	return &IfaceV{Tag: c.BVu(0, 32), Ptr: c.NilA}
}

func intrBufferReset(fr *frame, st *State, fn *ssa.Function, args []Val, pos token.Pos) Val {
	u := fr.u
	id := identOf(args[0])
	fr.nilCheck(st, id, pos)
	_, lenCell := u.ghostOutBase(id)
	fr.frameCheck(st, lenCell, types.Typ[types.Int], pos)
	u.writeCell(st, "bv64", lenCell, u.C.BVu(0, 64))
	return nil
}

func intrBufferBytes(fr *frame, st *State, fn *ssa.Function, args []Val, pos token.Pos) Val {
	u := fr.u
	c := u.C
	id := identOf(args[0])
	fr.nilCheck(st, id, pos)
	base, lenCell := u.ghostOutBase(id)
	n := u.readCell(st, "bv64", lenCell)
	u.assumeGlobal(c.ULe(n, c.BVu(1<<47, 64)))
	return &SliceV{Base: base, Off: c.BVu(0, 64), Len: n, Cap: n}
}

func intrBufferLen(fr *frame, st *State, fn *ssa.Function, args []Val, pos token.Pos) Val {
	u := fr.u
	id := identOf(args[0])
	fr.nilCheck(st, id, pos)
	_, lenCell := u.ghostOutBase(id)
	return u.readCell(st, "bv64", lenCell)
}

// Cap: a ghost capacity, 0 for the zero Buffer, at least the length, positive once something was written.
func intrBufferCap(fr *frame, st *State, fn *ssa.Function, args []Val, pos token.Pos) Val {
	u := fr.u
	c := u.C
	id := identOf(args[0])
	fr.nilCheck(st, id, pos)
	_, lenCell := u.ghostOutBase(id)
	n := u.readCell(st, "bv64", lenCell)
	cp := u.readCell(st, "bv64", c.Fld(id, fGhostCap))
	u.assume(st, c.And(c.ULe(n, cp), c.ULe(cp, c.BVu(1<<56, 64))))
	return cp
}
