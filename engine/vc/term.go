// Package vc is the verification-condition generator: hash-consed terms,
// lazy memories, symbolic execution of go/ssa, contracts, SMT back ends.
package vc

import (
	"fmt"
	"math/big"
	"sort"
	"strings"
)

// ---- sorts ----------------------------------------------------------------

type SortKind int

const (
	KBool SortKind = iota
	KBV
	KAddr
	KInt
)

type Sort struct {
	K SortKind
	W int // bit width for KBV
}

var (
	SBool = Sort{K: KBool}
	SAddr = Sort{K: KAddr}
	SInt  = Sort{K: KInt}
)

func BV(w int) Sort { return Sort{K: KBV, W: w} }

func (s Sort) SMT() string {
	switch s.K {
	case KBool:
		return "Bool"
	case KBV:
		return fmt.Sprintf("(_ BitVec %d)", s.W)
	case KAddr:
		return "Addr"
	case KInt:
		return "Int"
	}
	panic("sort")
}

// ---- terms ----------------------------------------------------------------

type Op int

const (
	OpConst Op = iota // BV / Bool / Int constant
	OpVar             // free symbol (declared) or bound variable
	OpApp             // uninterpreted function application, Name = function
	OpNot
	OpAnd
	OpOr
	OpImplies
	OpIte
	OpEq
	OpForall // Args[0] body; Bound = variables
	OpExists
	// bit-vector
	OpAdd
	OpSub
	OpMul
	OpUDiv
	OpURem
	OpSDiv
	OpSRem
	OpBAnd
	OpBOr
	OpBXor
	OpBNot
	OpNeg
	OpShl
	OpLShr
	OpAShr
	OpULt
	OpULe
	OpSLt
	OpSLe
	OpConcat
	OpExtract // K = hi, K2 = lo
	OpZExt    // K = extra bits
	OpSExt
	// addresses
	OpNil
	OpObj // K = object id (Int constant)
	OpFld // Args[0] base, K = field id
	OpIdx // Args[0] base, Args[1] index bv64
	OpIsIdx
	OpIsFld
	OpIdxBase
	OpIdxIndex
	OpFldBase
	OpFldId // Int-valued
	// Int
	OpIntConst
	OpIntLt
)

var opSMT = map[Op]string{
	OpNot: "not", OpAnd: "and", OpOr: "or", OpImplies: "=>", OpIte: "ite", OpEq: "=",
	OpAdd: "bvadd", OpSub: "bvsub", OpMul: "bvmul", OpUDiv: "bvudiv", OpURem: "bvurem",
	OpSDiv: "bvsdiv", OpSRem: "bvsrem", OpBAnd: "bvand", OpBOr: "bvor", OpBXor: "bvxor",
	OpBNot: "bvnot", OpNeg: "bvneg", OpShl: "bvshl", OpLShr: "bvlshr", OpAShr: "bvashr",
	OpULt: "bvult", OpULe: "bvule", OpSLt: "bvslt", OpSLe: "bvsle", OpConcat: "concat",
	OpIsIdx: "(_ is Idx)", OpIsFld: "(_ is Fld)", OpIdxBase: "ib", OpIdxIndex: "ii",
	OpFldBase: "fb", OpFldId: "fi", OpIntLt: "<",
}

type Term struct {
	id    int
	Op    Op
	S     Sort
	Args  []*Term
	Name  string   // var / app name
	V     *big.Int // constant value (BV: unsigned representation)
	K, K2 int
	Bound []*Term // for quantifiers
	free  []int   // ids of free *bound-style* variables occurring (sorted)
	size  int
	quant bool // contains a quantifier
	qh    int  // quantifier height: nesting depth of quantifiers inside the term
}

func (t *Term) ID() int { return t.id }

// HasQuant reports whether the term contains a quantifier.
func (t *Term) HasQuant() bool { return t.quant }

// Ctx owns the hash-cons table and symbol declarations of one verification unit.
type Ctx struct {
	tab     map[string]*Term
	next    int
	Decls   map[string]string // name -> SMT declaration line
	declOrd []string
	fresh   int
	True    *Term
	False   *Term
	NilA    *Term
	// Rewrite maps term ids to replacement terms while a case of a case split is being executed.
	Rewrite   map[int]*Term
	boundVars map[int]*Term
}

func NewCtx() *Ctx {
	c := &Ctx{tab: map[string]*Term{}, Decls: map[string]string{}}
	c.True = c.mk(&Term{Op: OpConst, S: SBool, V: big.NewInt(1)})
	c.False = c.mk(&Term{Op: OpConst, S: SBool, V: big.NewInt(0)})
	c.NilA = c.mk(&Term{Op: OpNil, S: SAddr})
	return c
}

func (c *Ctx) key(t *Term) string {
	var sb strings.Builder
	fmt.Fprintf(&sb, "%d|%d.%d|%s|%d|%d|", t.Op, t.S.K, t.S.W, t.Name, t.K, t.K2)
	if t.V != nil {
		sb.WriteString(t.V.String())
	}
	sb.WriteByte('|')
	for _, a := range t.Args {
		fmt.Fprintf(&sb, "%d,", a.id)
	}
	for _, b := range t.Bound {
		fmt.Fprintf(&sb, "b%d,", b.id)
	}
	return sb.String()
}

func (c *Ctx) mk(t *Term) *Term {
	k := c.key(t)
	if o, ok := c.tab[k]; ok {
		if c.Rewrite != nil {
			if r, ok := c.Rewrite[o.id]; ok {
				return r
			}
		}
		return o
	}
	c.next++
	t.id = c.next
	t.size = 1
	var fr map[int]bool
	for _, a := range t.Args {
		if a.quant {
			t.quant = true
		}
		if a.qh > t.qh {
			t.qh = a.qh
		}
		t.size += a.size
		if t.size > 1<<30 {
			t.size = 1 << 30
		}
		for _, f := range a.free {
			if fr == nil {
				fr = map[int]bool{}
			}
			fr[f] = true
		}
	}
	if t.Op == OpVar && t.K == 1 { // bound-style variable
		fr = map[int]bool{t.id: true}
	}
	if t.Op == OpForall || t.Op == OpExists {
		t.quant = true
		t.qh++
	}
	for _, b := range t.Bound {
		delete(fr, b.id)
	}
	for f := range fr {
		t.free = append(t.free, f)
	}
	sort.Ints(t.free)
	c.tab[k] = t
	return t
}

func (c *Ctx) declare(name, line string) {
	if _, ok := c.Decls[name]; !ok {
		c.Decls[name] = line
		c.declOrd = append(c.declOrd, name)
	}
}

// Var declares (once) and returns a free symbol.
func (c *Ctx) Var(name string, s Sort) *Term {
	name = smtName(name)
	c.declare(name, fmt.Sprintf("(declare-fun %s () %s)", name, s.SMT()))
	return c.mk(&Term{Op: OpVar, S: s, Name: name})
}

// Fresh returns a new free symbol with a unique suffix.
func (c *Ctx) Fresh(prefix string, s Sort) *Term {
	c.fresh++
	return c.Var(fmt.Sprintf("%s!%d", prefix, c.fresh), s)
}

// BoundVar returns a variable intended for use under a quantifier (not declared).
func (c *Ctx) BoundVar(prefix string, s Sort) *Term {
	c.fresh++
	t := c.mk(&Term{Op: OpVar, S: s, Name: smtName(fmt.Sprintf("%s?%d", prefix, c.fresh)), K: 1})
	if c.boundVars == nil {
		c.boundVars = map[int]*Term{}
	}
	c.boundVars[t.id] = t
	return t
}

// Close universally quantifies the bound-style variables occurring free in f.
func (c *Ctx) Close(f *Term) *Term {
	if len(f.free) == 0 {
		return f
	}
	// canonical bound variables, so that alpha-equivalent closures are one hash-consed term
	var vs []*Term
	m := map[int]*Term{}
	for i, id := range f.free {
		old := c.boundVars[id]
		name := smtName(fmt.Sprintf("cv%d?%d", i, old.S.W))
		cv := c.mk(&Term{Op: OpVar, S: old.S, Name: name, K: 1})
		c.boundVars[cv.id] = cv
		m[id] = cv
		vs = append(vs, cv)
	}
	return c.Forall(vs, c.Subst(f, m))
}

// UF declares an uninterpreted function and returns an applier.
func (c *Ctx) DeclareUF(name string, args []Sort, res Sort) string {
	name = smtName(name)
	var as []string
	for _, a := range args {
		as = append(as, a.SMT())
	}
	c.declare(name, fmt.Sprintf("(declare-fun %s (%s) %s)", name, strings.Join(as, " "), res.SMT()))
	return name
}

// BornApp: application of a havoc-memory function of address sort: its value existed when born objects had been allocated.
func (c *Ctx) BornApp(name string, res Sort, born int, args ...*Term) *Term {
	return c.mk(&Term{Op: OpApp, S: res, Name: smtName(name), Args: args, K: born, K2: 8})
}

func (c *Ctx) App(name string, res Sort, args ...*Term) *Term {
	return c.mk(&Term{Op: OpApp, S: res, Name: smtName(name), Args: args})
}

func smtName(s string) string {
	ok := true
	for _, r := range s {
		if !(r >= 'a' && r <= 'z' || r >= 'A' && r <= 'Z' || r >= '0' && r <= '9' || strings.ContainsRune("_.!?$@#-", r)) {
			ok = false
			break
		}
	}
	if ok && s != "" && !(s[0] >= '0' && s[0] <= '9') {
		return s
	}
	if strings.HasPrefix(s, "|") {
		return s
	}
	return "|" + strings.NewReplacer("|", "_", "\\", "_").Replace(s) + "|"
}

// ---- constants ------------------------------------------------------------

func mask(w int) *big.Int {
	m := new(big.Int).Lsh(big.NewInt(1), uint(w))
	return m.Sub(m, big.NewInt(1))
}

func (c *Ctx) BVConst(v *big.Int, w int) *Term {
	x := new(big.Int).And(v, mask(w)) // two's complement wrap for negatives
	if v.Sign() < 0 {
		x = new(big.Int).Add(v, new(big.Int).Lsh(big.NewInt(1), uint(w)))
		x.And(x, mask(w))
	}
	return c.mk(&Term{Op: OpConst, S: BV(w), V: x})
}

func (c *Ctx) BVu(v uint64, w int) *Term { return c.BVConst(new(big.Int).SetUint64(v), w) }
func (c *Ctx) BVi(v int64, w int) *Term  { return c.BVConst(big.NewInt(v), w) }
func (c *Ctx) Bool(b bool) *Term {
	if b {
		return c.True
	}
	return c.False
}
func (c *Ctx) IntConst(v int64) *Term {
	return c.mk(&Term{Op: OpIntConst, S: SInt, V: big.NewInt(v)})
}

func (t *Term) IsConst() bool { return t.Op == OpConst || t.Op == OpIntConst }
func (t *Term) IsTrue() bool  { return t.Op == OpConst && t.S.K == KBool && t.V.Sign() != 0 }
func (t *Term) IsFalse() bool { return t.Op == OpConst && t.S.K == KBool && t.V.Sign() == 0 }

// signed value of a BV constant
func (t *Term) Signed() *big.Int {
	v := new(big.Int).Set(t.V)
	if t.S.K == KBV && v.Bit(t.S.W-1) == 1 {
		v.Sub(v, new(big.Int).Lsh(big.NewInt(1), uint(t.S.W)))
	}
	return v
}

// ---- boolean constructors ---------------------------------------------------

func (c *Ctx) Not(a *Term) *Term {
	if a.IsTrue() {
		return c.False
	}
	if a.IsFalse() {
		return c.True
	}
	if a.Op == OpNot {
		return a.Args[0]
	}
	return c.mk(&Term{Op: OpNot, S: SBool, Args: []*Term{a}})
}

func (c *Ctx) And(as ...*Term) *Term {
	var out []*Term
	seen := map[int]bool{}
	for _, a := range as {
		if a.IsTrue() {
			continue
		}
		if a.IsFalse() {
			return c.False
		}
		if a.Op == OpAnd {
			for _, b := range a.Args {
				if !seen[b.id] {
					seen[b.id] = true
					out = append(out, b)
				}
			}
			continue
		}
		if !seen[a.id] {
			seen[a.id] = true
			out = append(out, a)
		}
	}
	for _, a := range out {
		if a.Op == OpNot && seen[a.Args[0].id] {
			return c.False
		}
	}
	switch len(out) {
	case 0:
		return c.True
	case 1:
		return out[0]
	}
	return c.mk(&Term{Op: OpAnd, S: SBool, Args: out})
}

func (c *Ctx) Or(as ...*Term) *Term {
	var out []*Term
	seen := map[int]bool{}
	for _, a := range as {
		if a.IsFalse() {
			continue
		}
		if a.IsTrue() {
			return c.True
		}
		if a.Op == OpOr {
			for _, b := range a.Args {
				if !seen[b.id] {
					seen[b.id] = true
					out = append(out, b)
				}
			}
			continue
		}
		if !seen[a.id] {
			seen[a.id] = true
			out = append(out, a)
		}
	}
	for _, a := range out {
		if a.Op == OpNot && seen[a.Args[0].id] {
			return c.True
		}
	}
	switch len(out) {
	case 0:
		return c.False
	case 1:
		return out[0]
	}
	return c.mk(&Term{Op: OpOr, S: SBool, Args: out})
}

func (c *Ctx) Implies(a, b *Term) *Term {
	if a.IsTrue() {
		return b
	}
	if a.IsFalse() || b.IsTrue() {
		return c.True
	}
	if b.IsFalse() {
		return c.Not(a)
	}
	if a == b {
		return c.True
	}
	return c.mk(&Term{Op: OpImplies, S: SBool, Args: []*Term{a, b}})
}

func (c *Ctx) Ite(cond, a, b *Term) *Term {
	if cond.IsTrue() {
		return a
	}
	if cond.IsFalse() {
		return b
	}
	if a == b {
		return a
	}
	if a.S != b.S {
		panic(fmt.Sprintf("ite sort mismatch %v %v", a.S, b.S))
	}
	if a.S.K == KBool {
		if a.IsTrue() && b.IsFalse() {
			return cond
		}
		if a.IsFalse() && b.IsTrue() {
			return c.Not(cond)
		}
		if a.IsTrue() {
			return c.Or(cond, b)
		}
		if b.IsFalse() {
			return c.And(cond, a)
		}
		if a.IsFalse() {
			return c.And(c.Not(cond), b)
		}
		if b.IsTrue() {
			return c.Or(c.Not(cond), a)
		}
	}
	if cond.Op == OpNot {
		return c.Ite(cond.Args[0], b, a)
	}
	// ite(c, x, ite(c, y, z)) = ite(c, x, z)
	if b.Op == OpIte && b.Args[0] == cond {
		return c.Ite(cond, a, b.Args[2])
	}
	if a.Op == OpIte && a.Args[0] == cond {
		return c.Ite(cond, a.Args[1], b)
	}
	return c.mk(&Term{Op: OpIte, S: a.S, Args: []*Term{cond, a, b}})
}

// addrRoot returns the root of an address term and whether it is syntactically known.
// kind: 0 unknown, 1 fresh/global object with concrete id (K), 2 nil, 3 entry-state symbol,
// 4 value that existed when K objects had been allocated (read from a havoc memory),
// 5 anonymous object allocated during the call by an earlier loop iteration (distinct from every named object)
func addrRoot(a *Term) (*Term, int) {
	for {
		switch a.Op {
		case OpFld, OpIdx, OpIdxBase, OpFldBase:
			a = a.Args[0]
		case OpObj:
			return a, 1
		case OpNil:
			return a, 2
		case OpVar:
			if a.K2 == 7 { // marked as entry-state pointer
				return a, 3
			}
			if a.K2 == 9 { // an object allocated during the call in an earlier loop iteration
				return a, 5
			}
			return a, 0
		case OpApp:
			if a.K2 == 7 {
				return a, 3
			}
			if a.K2 == 8 { // read from a havoc memory created when a.K objects had been allocated
				return a, 4
			}
			return a, 0
		default:
			return a, 0
		}
	}
}

func (c *Ctx) Eq(a, b *Term) *Term {
	if a == b {
		return c.True
	}
	if a.S != b.S {
		panic(fmt.Sprintf("eq sort mismatch %v %v: %s = %s", a.S, b.S, c.Show(a), c.Show(b)))
	}
	if a.IsConst() && b.IsConst() {
		return c.Bool(a.V.Cmp(b.V) == 0)
	}
	if a.S.K == KBool {
		if a.IsTrue() {
			return b
		}
		if b.IsTrue() {
			return a
		}
		if a.IsFalse() {
			return c.Not(b)
		}
		if b.IsFalse() {
			return c.Not(a)
		}
	}
	if a.S.K == KAddr {
		if r, ok := c.addrEq(a, b); ok {
			return r
		}
	}
	if a.S.K == KBV {
		// x + c1 == x + c2, ite-lifting over constants
		if r, ok := c.bvEqSimp(a, b); ok {
			return r
		}
	}
	if a.id > b.id {
		a, b = b, a
	}
	return c.mk(&Term{Op: OpEq, S: SBool, Args: []*Term{a, b}})
}

func (c *Ctx) bvEqSimp(a, b *Term) (*Term, bool) {
	// ite(c, k1, k2) == k  with constants
	if b.IsConst() && a.Op == OpIte && a.Args[1].IsConst() && a.Args[2].IsConst() {
		return c.Ite(a.Args[0], c.Eq(a.Args[1], b), c.Eq(a.Args[2], b)), true
	}
	if a.IsConst() && b.Op == OpIte && b.Args[1].IsConst() && b.Args[2].IsConst() {
		return c.Ite(b.Args[0], c.Eq(b.Args[1], a), c.Eq(b.Args[2], a)), true
	}
	// difference normalises to a constant
	if a.size+b.size < 200 {
		if d := c.linear(a, b, true); d.IsConst() {
			return c.Bool(d.V.Sign() == 0), true
		}
	}
	// (x + k1) == (x + k2)
	xa, ka := splitAddConst(a)
	xb, kb := splitAddConst(b)
	if xa != nil && xa == xb {
		return c.Bool(ka.Cmp(kb) == 0), true
	}
	return nil, false
}

// splitAddConst decomposes t into base + constant (base may be nil for pure constant).
func splitAddConst(t *Term) (*Term, *big.Int) {
	if t.Op == OpConst {
		return nil, t.V
	}
	if t.Op == OpAdd && len(t.Args) == 2 {
		if t.Args[1].Op == OpConst {
			return t.Args[0], t.Args[1].V
		}
		if t.Args[0].Op == OpConst {
			return t.Args[1], t.Args[0].V
		}
	}
	return t, big.NewInt(0)
}

func (c *Ctx) addrEq(a, b *Term) (*Term, bool) {
	switch {
	case a.Op == OpNil && b.Op == OpNil:
		return c.True, true
	case a.Op == OpNil && (b.Op == OpObj || b.Op == OpFld || b.Op == OpIdx),
		b.Op == OpNil && (a.Op == OpObj || a.Op == OpFld || a.Op == OpIdx):
		return c.False, true
	case a.Op == OpObj && b.Op == OpObj:
		return c.Bool(a.K == b.K), true
	case a.Op == OpFld && b.Op == OpFld:
		if a.K != b.K {
			return c.False, true
		}
		return c.Eq(a.Args[0], b.Args[0]), true
	case a.Op == OpIdx && b.Op == OpIdx:
		return c.And(c.Eq(a.Args[0], b.Args[0]), c.Eq(a.Args[1], b.Args[1])), true
	case (a.Op == OpIdx || a.Op == OpFld || a.Op == OpObj) && (b.Op == OpIdx || b.Op == OpFld || b.Op == OpObj):
		return c.False, true // different constructors
	}
	// distinct roots: fresh object vs entry-state symbol
	ra, ka := addrRoot(a)
	rb, kb := addrRoot(b)
	if ka == 1 && kb == 1 && ra.K != rb.K {
		return c.False, true
	}
	if (ka == 1 && ra.K > 0 && kb == 3) || (kb == 1 && rb.K > 0 && ka == 3) {
		return c.False, true // object allocated during the call vs something that existed at entry
	}
	if (ka == 1 && kb == 4 && ra.K > rb.K) || (kb == 1 && ka == 4 && rb.K > ra.K) {
		return c.False, true // object allocated after the unknown value came into existence
	}
	if (ka == 5 && (kb == 1 || kb == 2 || kb == 3)) || (kb == 5 && (ka == 1 || ka == 2 || ka == 3)) {
		return c.False, true // anonymous call-local object vs a named object, nil or an entry-state object
	}
	if (ka == 1 && kb == 2) || (ka == 2 && kb == 1) {
		return c.False, true
	}
	if a.Op == OpIte {
		return c.Ite(a.Args[0], c.Eq(a.Args[1], b), c.Eq(a.Args[2], b)), true
	}
	if b.Op == OpIte {
		return c.Ite(b.Args[0], c.Eq(a, b.Args[1]), c.Eq(a, b.Args[2])), true
	}
	return nil, false
}

func (c *Ctx) Ne(a, b *Term) *Term { return c.Not(c.Eq(a, b)) }

// canonBound renames the variables of a quantifier about to be built to names fixed by the quantifier height of its
// body, so that alpha-equivalent quantified formulas are ONE hash-consed term (a hypothesis "G ==> Q" and a goal
// "G ==> Q'" then share G syntactically). Inner quantifiers have smaller heights, hence different names; sibling
// quantifiers of equal height have disjoint scopes.
func (c *Ctx) canonBound(vars []*Term, body *Term) ([]*Term, *Term) {
	m := map[int]*Term{}
	out := make([]*Term, len(vars))
	same := true
	for i, v := range vars {
		name := smtName(fmt.Sprintf("qv%d_%d?%d%d", body.qh, i, v.S.K, v.S.W))
		cv := c.mk(&Term{Op: OpVar, S: v.S, Name: name, K: 1})
		if c.boundVars == nil {
			c.boundVars = map[int]*Term{}
		}
		c.boundVars[cv.id] = cv
		out[i] = cv
		if cv != v {
			m[v.id] = cv
			same = false
		}
	}
	if same {
		return vars, body
	}
	return out, c.Subst(body, m)
}

func (c *Ctx) Forall(vars []*Term, body *Term) *Term {
	if body.IsTrue() || body.IsFalse() {
		return body
	}
	vars, body = c.canonBound(vars, body)
	return c.mk(&Term{Op: OpForall, S: SBool, Args: []*Term{body}, Bound: vars})
}

func (c *Ctx) Exists(vars []*Term, body *Term) *Term {
	if body.IsTrue() || body.IsFalse() {
		return body
	}
	vars, body = c.canonBound(vars, body)
	return c.mk(&Term{Op: OpExists, S: SBool, Args: []*Term{body}, Bound: vars})
}

// ---- bit-vector constructors -------------------------------------------------

func (c *Ctx) bin(op Op, a, b *Term) *Term {
	if a.S != b.S || a.S.K != KBV {
		panic(fmt.Sprintf("bv op %v sort mismatch %v %v: %s ; %s", opSMT[op], a.S, b.S, c.Show(a), c.Show(b)))
	}
	w := a.S.W
	if a.IsConst() && b.IsConst() {
		if r := foldBin(op, a, b, w); r != nil {
			return c.BVConst(r, w)
		}
	}
	switch op {
	case OpAdd:
		if a.IsConst() && a.V.Sign() == 0 {
			return b
		}
		if b.IsConst() && b.V.Sign() == 0 {
			return a
		}
		if a.IsConst() { // constants to the right
			a, b = b, a
		}
		// (x + k1) + k2
		if b.IsConst() && a.Op == OpAdd && a.Args[1].IsConst() {
			return c.bin(OpAdd, a.Args[0], c.BVConst(new(big.Int).Add(a.Args[1].V, b.V), w))
		}
		// (x - y) + y = x
		if a.Op == OpSub && a.Args[1] == b {
			return a.Args[0]
		}
		if b.Op == OpSub && b.Args[1] == a {
			return b.Args[0]
		}
	case OpSub:
		if b.IsConst() && b.V.Sign() == 0 {
			return a
		}
		if a == b {
			return c.BVu(0, w)
		}
		if b.IsConst() {
			return c.bin(OpAdd, a, c.BVConst(new(big.Int).Neg(b.V), w))
		}
		// (x + y) - x = y ; (x + y) - y = x
		if a.Op == OpAdd {
			if a.Args[0] == b {
				return a.Args[1]
			}
			if a.Args[1] == b {
				return a.Args[0]
			}
			// (x + k) - (x + k2)
			xb, kb := splitAddConst(b)
			if a.Args[1].IsConst() && xb == a.Args[0] {
				return c.BVConst(new(big.Int).Sub(a.Args[1].V, kb), w)
			}
		}
		if xa, ka := splitAddConst(a); xa != nil {
			if xb, kb := splitAddConst(b); xb == xa {
				return c.BVConst(new(big.Int).Sub(ka, kb), w)
			}
		}
	case OpMul:
		if a.IsConst() {
			a, b = b, a
		}
		if b.IsConst() {
			if b.V.Sign() == 0 {
				return b
			}
			if b.V.Cmp(big.NewInt(1)) == 0 {
				return a
			}
		}
	case OpBAnd:
		if a == b {
			return a
		}
		if a.IsConst() {
			a, b = b, a
		}
		if b.IsConst() {
			if b.V.Sign() == 0 {
				return b
			}
			if b.V.Cmp(mask(w)) == 0 {
				return a
			}
		}
	case OpBOr:
		if a == b {
			return a
		}
		if a.IsConst() {
			a, b = b, a
		}
		if b.IsConst() {
			if b.V.Sign() == 0 {
				return a
			}
			if b.V.Cmp(mask(w)) == 0 {
				return b
			}
		}
	case OpBXor:
		if a == b {
			return c.BVu(0, w)
		}
		if b.IsConst() && b.V.Sign() == 0 {
			return a
		}
		if a.IsConst() && a.V.Sign() == 0 {
			return b
		}
	case OpShl, OpLShr, OpAShr:
		if b.IsConst() && b.V.Sign() == 0 {
			return a
		}
	}
	return c.mk(&Term{Op: op, S: a.S, Args: []*Term{a, b}})
}

func foldBin(op Op, a, b *Term, w int) *big.Int {
	x, y := a.V, b.V
	sx, sy := a.Signed(), b.Signed()
	r := new(big.Int)
	switch op {
	case OpAdd:
		return r.Add(x, y)
	case OpSub:
		return r.Sub(x, y)
	case OpMul:
		return r.Mul(x, y)
	case OpUDiv:
		if y.Sign() == 0 {
			return mask(w)
		}
		return r.Div(x, y)
	case OpURem:
		if y.Sign() == 0 {
			return x
		}
		return r.Mod(x, y)
	case OpSDiv:
		if sy.Sign() == 0 {
			return nil
		}
		return r.Quo(sx, sy)
	case OpSRem:
		if sy.Sign() == 0 {
			return nil
		}
		return r.Rem(sx, sy)
	case OpBAnd:
		return r.And(x, y)
	case OpBOr:
		return r.Or(x, y)
	case OpBXor:
		return r.Xor(x, y)
	case OpShl:
		if y.Cmp(big.NewInt(int64(w))) >= 0 {
			return big.NewInt(0)
		}
		return r.Lsh(x, uint(y.Uint64()))
	case OpLShr:
		if y.Cmp(big.NewInt(int64(w))) >= 0 {
			return big.NewInt(0)
		}
		return r.Rsh(x, uint(y.Uint64()))
	case OpAShr:
		if y.Cmp(big.NewInt(int64(w))) >= 0 {
			if sx.Sign() < 0 {
				return big.NewInt(-1)
			}
			return big.NewInt(0)
		}
		return r.Rsh(sx, uint(y.Uint64()))
	}
	return nil
}

func (c *Ctx) Add(a, b *Term) *Term { return c.linear(a, b, false) }
func (c *Ctx) Sub(a, b *Term) *Term { return c.linear(a, b, true) }

// linear normalises sums/differences: atoms with integer coefficients plus a constant, in a canonical
// order, so that (x + s) - (y + s) and similar index expressions cancel syntactically.
func (c *Ctx) linear(a, b *Term, sub bool) *Term {
	if a.S != b.S || a.S.K != KBV {
		panic(fmt.Sprintf("bv add sort mismatch %v %v: %s ; %s", a.S, b.S, c.Show(a), c.Show(b)))
	}
	w := a.S.W
	if a.size+b.size > 400 {
		if sub {
			return c.bin(OpSub, a, b)
		}
		return c.bin(OpAdd, a, b)
	}
	coef := map[int]*big.Int{}
	atoms := map[int]*Term{}
	k := new(big.Int)
	var walk func(t *Term, m *big.Int, depth int)
	walk = func(t *Term, m *big.Int, depth int) {
		switch {
		case t.Op == OpConst:
			k.Add(k, new(big.Int).Mul(t.V, m))
		case t.Op == OpAdd && depth < 40:
			walk(t.Args[0], m, depth+1)
			walk(t.Args[1], m, depth+1)
		case t.Op == OpSub && depth < 40:
			walk(t.Args[0], m, depth+1)
			walk(t.Args[1], new(big.Int).Neg(m), depth+1)
		case t.Op == OpNeg && depth < 40:
			walk(t.Args[0], new(big.Int).Neg(m), depth+1)
		case t.Op == OpMul && t.Args[1].Op == OpConst && depth < 40:
			walk(t.Args[0], new(big.Int).Mul(m, t.Args[1].Signed()), depth+1)
		default:
			if _, ok := coef[t.id]; !ok {
				coef[t.id] = new(big.Int)
				atoms[t.id] = t
			}
			coef[t.id].Add(coef[t.id], m)
		}
	}
	walk(a, big.NewInt(1), 0)
	if sub {
		walk(b, big.NewInt(-1), 0)
	} else {
		walk(b, big.NewInt(1), 0)
	}
	ids := make([]int, 0, len(coef))
	mod := new(big.Int).Lsh(big.NewInt(1), uint(w))
	for id, cf := range coef {
		cf.Mod(cf, mod)
		if cf.Sign() != 0 {
			ids = append(ids, id)
		}
	}
	sort.Ints(ids)
	var pos, neg *Term
	addTo := func(acc *Term, t *Term) *Term {
		if acc == nil {
			return t
		}
		return c.bin(OpAdd, acc, t)
	}
	half := new(big.Int).Rsh(mod, 1)
	for _, id := range ids {
		cf := coef[id]
		t := atoms[id]
		if cf.Cmp(half) >= 0 { // negative coefficient
			n := new(big.Int).Sub(mod, cf)
			if n.Cmp(big.NewInt(1)) != 0 {
				t = c.bin(OpMul, t, c.BVConst(n, w))
			}
			neg = addTo(neg, t)
		} else {
			if cf.Cmp(big.NewInt(1)) != 0 {
				t = c.bin(OpMul, t, c.BVConst(cf, w))
			}
			pos = addTo(pos, t)
		}
	}
	k.Mod(k, mod)
	var r *Term
	switch {
	case pos == nil && neg == nil:
		return c.BVConst(k, w)
	case pos == nil:
		r = c.mkNeg(neg)
	case neg == nil:
		r = pos
	default:
		r = c.mk(&Term{Op: OpSub, S: pos.S, Args: []*Term{pos, neg}})
	}
	if k.Sign() != 0 {
		r = c.mk(&Term{Op: OpAdd, S: r.S, Args: []*Term{r, c.BVConst(k, w)}})
	}
	return r
}

// AddRaw builds base+idx without merging the two summands, so that element addresses keep the shape
// (bvadd off i) that quantified invariants over the same slice use as their E-matching pattern.
func (c *Ctx) AddRaw(off, i *Term) *Term {
	if off.IsConst() && off.V.Sign() == 0 {
		return i
	}
	if i.IsConst() && i.V.Sign() == 0 {
		return off
	}
	if off.IsConst() && i.IsConst() {
		return c.bin(OpAdd, off, i)
	}
	if off.IsConst() {
		return c.Add(off, i)
	}
	return c.mk(&Term{Op: OpAdd, S: off.S, Args: []*Term{off, i}})
}

func (c *Ctx) mkNeg(a *Term) *Term { return c.mk(&Term{Op: OpNeg, S: a.S, Args: []*Term{a}}) }
func (c *Ctx) Mul(a, b *Term) *Term  { return c.bin(OpMul, a, b) }
func (c *Ctx) UDiv(a, b *Term) *Term { return c.bin(OpUDiv, a, b) }
func (c *Ctx) URem(a, b *Term) *Term { return c.bin(OpURem, a, b) }
func (c *Ctx) SDiv(a, b *Term) *Term { return c.bin(OpSDiv, a, b) }
func (c *Ctx) SRem(a, b *Term) *Term { return c.bin(OpSRem, a, b) }
func (c *Ctx) BAnd(a, b *Term) *Term { return c.bin(OpBAnd, a, b) }
func (c *Ctx) BOr(a, b *Term) *Term  { return c.bin(OpBOr, a, b) }
func (c *Ctx) BXor(a, b *Term) *Term { return c.bin(OpBXor, a, b) }
func (c *Ctx) Shl(a, b *Term) *Term  { return c.bin(OpShl, a, b) }
func (c *Ctx) LShr(a, b *Term) *Term { return c.bin(OpLShr, a, b) }
func (c *Ctx) AShr(a, b *Term) *Term { return c.bin(OpAShr, a, b) }

func (c *Ctx) BNot(a *Term) *Term {
	if a.IsConst() {
		return c.BVConst(new(big.Int).Xor(a.V, mask(a.S.W)), a.S.W)
	}
	return c.mk(&Term{Op: OpBNot, S: a.S, Args: []*Term{a}})
}

func (c *Ctx) Neg(a *Term) *Term {
	if a.IsConst() {
		return c.BVConst(new(big.Int).Neg(a.V), a.S.W)
	}
	return c.mk(&Term{Op: OpNeg, S: a.S, Args: []*Term{a}})
}

func (c *Ctx) cmp(op Op, a, b *Term) *Term {
	if a.S != b.S || a.S.K != KBV {
		panic(fmt.Sprintf("cmp sort mismatch %v %v: %s ; %s", a.S, b.S, c.Show(a), c.Show(b)))
	}
	if a.IsConst() && b.IsConst() {
		switch op {
		case OpULt:
			return c.Bool(a.V.Cmp(b.V) < 0)
		case OpULe:
			return c.Bool(a.V.Cmp(b.V) <= 0)
		case OpSLt:
			return c.Bool(a.Signed().Cmp(b.Signed()) < 0)
		case OpSLe:
			return c.Bool(a.Signed().Cmp(b.Signed()) <= 0)
		}
	}
	if a == b {
		return c.Bool(op == OpULe || op == OpSLe)
	}
	if op == OpULe && a.IsConst() && a.V.Sign() == 0 {
		return c.True
	}
	if op == OpULt && b.IsConst() && b.V.Sign() == 0 {
		return c.False
	}
	return c.mk(&Term{Op: op, S: SBool, Args: []*Term{a, b}})
}

func (c *Ctx) ULt(a, b *Term) *Term { return c.cmp(OpULt, a, b) }
func (c *Ctx) ULe(a, b *Term) *Term { return c.cmp(OpULe, a, b) }
func (c *Ctx) SLt(a, b *Term) *Term { return c.cmp(OpSLt, a, b) }
func (c *Ctx) SLe(a, b *Term) *Term { return c.cmp(OpSLe, a, b) }

func (c *Ctx) Extract(a *Term, hi, lo int) *Term {
	if lo == 0 && hi == a.S.W-1 {
		return a
	}
	if a.IsConst() {
		v := new(big.Int).Rsh(a.V, uint(lo))
		return c.BVConst(v.And(v, mask(hi-lo+1)), hi-lo+1)
	}
	if a.Op == OpZExt && hi < a.Args[0].S.W {
		return c.Extract(a.Args[0], hi, lo)
	}
	if a.Op == OpSExt && hi < a.Args[0].S.W {
		return c.Extract(a.Args[0], hi, lo)
	}
	if a.Op == OpZExt && lo >= a.Args[0].S.W {
		return c.BVu(0, hi-lo+1)
	}
	if a.Op == OpExtract {
		return c.Extract(a.Args[0], a.K2+hi, a.K2+lo)
	}
	if a.Op == OpIte && (a.Args[1].IsConst() || a.Args[2].IsConst()) {
		return c.Ite(a.Args[0], c.Extract(a.Args[1], hi, lo), c.Extract(a.Args[2], hi, lo))
	}
	return c.mk(&Term{Op: OpExtract, S: BV(hi - lo + 1), Args: []*Term{a}, K: hi, K2: lo})
}

func (c *Ctx) ZExt(a *Term, w int) *Term {
	if w == a.S.W {
		return a
	}
	if w < a.S.W {
		return c.Extract(a, w-1, 0)
	}
	if a.IsConst() {
		return c.BVConst(a.V, w)
	}
	if a.Op == OpZExt {
		return c.ZExt(a.Args[0], w)
	}
	if a.Op == OpIte && a.Args[1].IsConst() && a.Args[2].IsConst() {
		return c.Ite(a.Args[0], c.ZExt(a.Args[1], w), c.ZExt(a.Args[2], w))
	}
	return c.mk(&Term{Op: OpZExt, S: BV(w), Args: []*Term{a}, K: w - a.S.W})
}

func (c *Ctx) SExt(a *Term, w int) *Term {
	if w == a.S.W {
		return a
	}
	if w < a.S.W {
		return c.Extract(a, w-1, 0)
	}
	if a.IsConst() {
		return c.BVConst(a.Signed(), w)
	}
	if a.Op == OpZExt { // zero-extended value has a clear top bit
		return c.ZExt(a.Args[0], w)
	}
	return c.mk(&Term{Op: OpSExt, S: BV(w), Args: []*Term{a}, K: w - a.S.W})
}

func (c *Ctx) Concat(a, b *Term) *Term {
	if a.IsConst() && b.IsConst() {
		v := new(big.Int).Lsh(a.V, uint(b.S.W))
		return c.BVConst(v.Or(v, b.V), a.S.W+b.S.W)
	}
	return c.mk(&Term{Op: OpConcat, S: BV(a.S.W + b.S.W), Args: []*Term{a, b}})
}

// ---- address constructors ------------------------------------------------------

func (c *Ctx) Obj(id int) *Term { return c.mk(&Term{Op: OpObj, S: SAddr, K: id}) }
func (c *Ctx) Fld(base *Term, fid int) *Term {
	if base.Op == OpIte {
		return c.Ite(base.Args[0], c.Fld(base.Args[1], fid), c.Fld(base.Args[2], fid))
	}
	return c.mk(&Term{Op: OpFld, S: SAddr, Args: []*Term{base}, K: fid})
}
func (c *Ctx) Idx(base, i *Term) *Term {
	if i.S != BV(64) {
		panic("idx index sort")
	}
	if base.Op == OpIte {
		return c.Ite(base.Args[0], c.Idx(base.Args[1], i), c.Idx(base.Args[2], i))
	}
	return c.mk(&Term{Op: OpIdx, S: SAddr, Args: []*Term{base, i}})
}

// EntryAddrVar is a pointer-valued symbol known to denote something that existed at function entry.
func (c *Ctx) EntryAddrVar(name string) *Term {
	name = smtName(name)
	c.declare(name, fmt.Sprintf("(declare-fun %s () Addr)", name))
	return c.mk(&Term{Op: OpVar, S: SAddr, Name: name, K2: 7})
}

// LocalAddrVar is an address symbol denoting an anonymous object allocated during the call (by an earlier iteration
// of a loop): it is none of the objects the symbolic execution names, nor anything that existed at entry.
func (c *Ctx) LocalAddrVar(name string) *Term {
	name = smtName(name)
	c.declare(name, fmt.Sprintf("(declare-fun %s () Addr)", name))
	return c.mk(&Term{Op: OpVar, S: SAddr, Name: name, K2: 9})
}

// EntryApp is an application of an entry-state memory function (its value existed at entry).
func (c *Ctx) EntryApp(name string, res Sort, args ...*Term) *Term {
	k2 := 0
	if res.K == KAddr {
		k2 = 7
	}
	return c.mk(&Term{Op: OpApp, S: res, Name: smtName(name), Args: args, K2: k2})
}

func (c *Ctx) IsIdx(a *Term) *Term {
	switch a.Op {
	case OpIdx:
		return c.True
	case OpFld, OpObj, OpNil:
		return c.False
	case OpIte:
		return c.Ite(a.Args[0], c.IsIdx(a.Args[1]), c.IsIdx(a.Args[2]))
	}
	return c.mk(&Term{Op: OpIsIdx, S: SBool, Args: []*Term{a}})
}
func (c *Ctx) IsFld(a *Term) *Term {
	switch a.Op {
	case OpFld:
		return c.True
	case OpIdx, OpObj, OpNil:
		return c.False
	case OpIte:
		return c.Ite(a.Args[0], c.IsFld(a.Args[1]), c.IsFld(a.Args[2]))
	}
	return c.mk(&Term{Op: OpIsFld, S: SBool, Args: []*Term{a}})
}
func (c *Ctx) IdxBase(a *Term) *Term {
	if a.Op == OpIdx {
		return a.Args[0]
	}
	if a.Op == OpIte {
		return c.Ite(a.Args[0], c.IdxBase(a.Args[1]), c.IdxBase(a.Args[2]))
	}
	return c.mk(&Term{Op: OpIdxBase, S: SAddr, Args: []*Term{a}})
}
func (c *Ctx) IdxIndex(a *Term) *Term {
	if a.Op == OpIdx {
		return a.Args[1]
	}
	if a.Op == OpIte {
		return c.Ite(a.Args[0], c.IdxIndex(a.Args[1]), c.IdxIndex(a.Args[2]))
	}
	return c.mk(&Term{Op: OpIdxIndex, S: BV(64), Args: []*Term{a}})
}
func (c *Ctx) FldBase(a *Term) *Term {
	if a.Op == OpFld {
		return a.Args[0]
	}
	if a.Op == OpIte {
		return c.Ite(a.Args[0], c.FldBase(a.Args[1]), c.FldBase(a.Args[2]))
	}
	return c.mk(&Term{Op: OpFldBase, S: SAddr, Args: []*Term{a}})
}
func (c *Ctx) FldIdIs(a *Term, fid int) *Term {
	if a.Op == OpFld {
		return c.Bool(a.K == fid)
	}
	if a.Op == OpIdx || a.Op == OpObj || a.Op == OpNil {
		return c.False
	}
	if a.Op == OpIte {
		return c.Ite(a.Args[0], c.FldIdIs(a.Args[1], fid), c.FldIdIs(a.Args[2], fid))
	}
	fi := c.mk(&Term{Op: OpFldId, S: SInt, Args: []*Term{a}})
	return c.And(c.IsFld(a), c.mk(&Term{Op: OpEq, S: SBool, Args: []*Term{fi, c.IntConst(int64(fid))}}))
}

// ---- printing ---------------------------------------------------------------------

func (c *Ctx) Show(t *Term) string {
	var sb strings.Builder
	c.print(&sb, t, nil, 0)
	s := sb.String()
	if len(s) > 400 {
		s = s[:400] + "…"
	}
	return s
}

func bvLit(v *big.Int, w int) string {
	if w%4 == 0 {
		return fmt.Sprintf("#x%0*s", w/4, v.Text(16))
	}
	return fmt.Sprintf("#b%0*s", w, v.Text(2))
}

// print writes t in SMT-LIB; names maps term id -> defined name for shared closed terms.
func (c *Ctx) print(sb *strings.Builder, t *Term, names map[int]string, depth int) {
	if names != nil && depth > 0 {
		if n, ok := names[t.id]; ok {
			sb.WriteString(n)
			return
		}
	}
	switch t.Op {
	case OpConst:
		if t.S.K == KBool {
			if t.V.Sign() != 0 {
				sb.WriteString("true")
			} else {
				sb.WriteString("false")
			}
		} else {
			sb.WriteString(bvLit(t.V, t.S.W))
		}
	case OpIntConst:
		if t.V.Sign() < 0 {
			fmt.Fprintf(sb, "(- %s)", new(big.Int).Neg(t.V).String())
		} else {
			sb.WriteString(t.V.String())
		}
	case OpVar:
		sb.WriteString(t.Name)
	case OpNil:
		sb.WriteString("Nil")
	case OpObj:
		if t.K < 0 {
			fmt.Fprintf(sb, "(Obj (- %d))", -t.K)
		} else {
			fmt.Fprintf(sb, "(Obj %d)", t.K)
		}
	case OpFld:
		sb.WriteString("(Fld ")
		c.print(sb, t.Args[0], names, depth+1)
		if t.K < 0 {
			fmt.Fprintf(sb, " (- %d))", -t.K)
		} else {
			fmt.Fprintf(sb, " %d)", t.K)
		}
	case OpIdx:
		sb.WriteString("(Idx ")
		c.print(sb, t.Args[0], names, depth+1)
		sb.WriteByte(' ')
		c.print(sb, t.Args[1], names, depth+1)
		sb.WriteByte(')')
	case OpApp:
		if len(t.Args) == 0 {
			sb.WriteString(t.Name)
			return
		}
		sb.WriteByte('(')
		sb.WriteString(t.Name)
		for _, a := range t.Args {
			sb.WriteByte(' ')
			c.print(sb, a, names, depth+1)
		}
		sb.WriteByte(')')
	case OpExtract:
		fmt.Fprintf(sb, "((_ extract %d %d) ", t.K, t.K2)
		c.print(sb, t.Args[0], names, depth+1)
		sb.WriteByte(')')
	case OpZExt:
		fmt.Fprintf(sb, "((_ zero_extend %d) ", t.K)
		c.print(sb, t.Args[0], names, depth+1)
		sb.WriteByte(')')
	case OpSExt:
		fmt.Fprintf(sb, "((_ sign_extend %d) ", t.K)
		c.print(sb, t.Args[0], names, depth+1)
		sb.WriteByte(')')
	case OpForall, OpExists:
		if t.Op == OpForall {
			sb.WriteString("(forall (")
		} else {
			sb.WriteString("(exists (")
		}
		for _, b := range t.Bound {
			fmt.Fprintf(sb, "(%s %s)", b.Name, b.S.SMT())
		}
		sb.WriteString(") ")
		c.print(sb, t.Args[0], names, depth+1)
		sb.WriteByte(')')
	default:
		s, ok := opSMT[t.Op]
		if !ok {
			panic(fmt.Sprintf("print: op %d", t.Op))
		}
		sb.WriteByte('(')
		sb.WriteString(s)
		for _, a := range t.Args {
			sb.WriteByte(' ')
			c.print(sb, a, names, depth+1)
		}
		sb.WriteByte(')')
	}
}

const Prelude = `(declare-datatypes ((Addr 0)) (((Nil) (Obj (ref Int)) (Fld (fb Addr) (fi Int)) (Idx (ib Addr) (ii (_ BitVec 64))))))
`

// Script renders a complete query: declarations, shared definitions, assertions.
// hyps are asserted; goal is asserted negated (nil goal: satisfiability/cover query of hyps).
func (c *Ctx) Script(hyps []*Term, goal *Term, getValues []*Term) string {
	var sb strings.Builder
	sb.WriteString("(set-option :produce-models true)\n(set-logic ALL)\n")
	sb.WriteString(Prelude)
	// collect reachable terms
	roots := append([]*Term{}, hyps...)
	if goal != nil {
		roots = append(roots, goal)
	}
	roots = append(roots, getValues...)
	order := []*Term{}
	seen := map[int]bool{}
	usedDecl := map[string]bool{}
	var visit func(t *Term)
	visit = func(t *Term) {
		if seen[t.id] {
			return
		}
		seen[t.id] = true
		for _, a := range t.Args {
			visit(a)
		}
		if (t.Op == OpVar && t.K == 0) || t.Op == OpApp {
			usedDecl[t.Name] = true
		}
		order = append(order, t)
	}
	for _, r := range roots {
		visit(r)
	}
	for _, n := range c.declOrd {
		if usedDecl[n] {
			sb.WriteString(c.Decls[n])
			sb.WriteByte('\n')
		}
	}
	names := map[int]string{}
	for _, t := range order {
		if len(t.Args) == 0 || len(t.free) > 0 {
			continue
		}
		if t.Op == OpObj || (t.Op == OpFld && len(t.Args[0].Args) == 0) {
			continue
		}
		n := fmt.Sprintf("t%d", t.id)
		fmt.Fprintf(&sb, "(define-fun %s () %s ", n, t.S.SMT())
		c.print(&sb, t, names, 0)
		sb.WriteString(")\n")
		names[t.id] = n
	}
	for _, h := range hyps {
		sb.WriteString("(assert ")
		c.print(&sb, h, names, 1)
		sb.WriteString(")\n")
	}
	if goal != nil {
		sb.WriteString("(assert (not ")
		c.print(&sb, goal, names, 1)
		sb.WriteString("))\n")
	}
	sb.WriteString("(check-sat)\n")
	if len(getValues) > 0 {
		sb.WriteString("(get-value (")
		for _, g := range getValues {
			c.print(&sb, g, names, 1)
			sb.WriteByte(' ')
		}
		sb.WriteString("))\n")
	}
	return sb.String()
}

// ---- rebuilding / substitution / skolemisation -----------------------------------------

// Rebuild constructs a term like t with new arguments, re-running simplification.
func (c *Ctx) Rebuild(t *Term, args []*Term) *Term {
	same := true
	for i := range args {
		if args[i] != t.Args[i] {
			same = false
		}
	}
	if same {
		return t
	}
	switch t.Op {
	case OpNot:
		return c.Not(args[0])
	case OpAnd:
		return c.And(args...)
	case OpOr:
		return c.Or(args...)
	case OpImplies:
		return c.Implies(args[0], args[1])
	case OpIte:
		return c.Ite(args[0], args[1], args[2])
	case OpEq:
		return c.Eq(args[0], args[1])
	case OpForall:
		return c.Forall(t.Bound, args[0])
	case OpExists:
		return c.Exists(t.Bound, args[0])
	case OpAdd, OpSub, OpMul, OpUDiv, OpURem, OpSDiv, OpSRem, OpBAnd, OpBOr, OpBXor, OpShl, OpLShr, OpAShr:
		return c.bin(t.Op, args[0], args[1])
	case OpBNot:
		return c.BNot(args[0])
	case OpNeg:
		return c.Neg(args[0])
	case OpULt, OpULe, OpSLt, OpSLe:
		return c.cmp(t.Op, args[0], args[1])
	case OpConcat:
		return c.Concat(args[0], args[1])
	case OpExtract:
		return c.Extract(args[0], t.K, t.K2)
	case OpZExt:
		return c.ZExt(args[0], t.S.W)
	case OpSExt:
		return c.SExt(args[0], t.S.W)
	case OpFld:
		return c.Fld(args[0], t.K)
	case OpIdx:
		return c.Idx(args[0], args[1])
	case OpIsIdx:
		return c.IsIdx(args[0])
	case OpIsFld:
		return c.IsFld(args[0])
	case OpIdxBase:
		return c.IdxBase(args[0])
	case OpIdxIndex:
		return c.IdxIndex(args[0])
	case OpFldBase:
		return c.FldBase(args[0])
	case OpApp:
		n := *t
		n.Args = args
		n.id = 0
		n.free = nil
		return c.mk(&n)
	}
	n := *t
	n.Args = args
	n.id = 0
	n.free = nil
	return c.mk(&n)
}

// Subst replaces variables (by term id) throughout t.
func (c *Ctx) Subst(t *Term, m map[int]*Term) *Term {
	cache := map[int]*Term{}
	var rec func(t *Term) *Term
	rec = func(t *Term) *Term {
		if r, ok := m[t.id]; ok {
			return r
		}
		if len(t.Args) == 0 || len(t.free) == 0 {
			return t
		}
		if r, ok := cache[t.id]; ok {
			return r
		}
		args := make([]*Term, len(t.Args))
		for i, a := range t.Args {
			args[i] = rec(a)
		}
		r := c.Rebuild(t, args)
		cache[t.id] = r
		return r
	}
	return rec(t)
}

// Skolemize removes universal quantifiers in positive positions of a goal (the goal is negated
// in the query, so each becomes an existential = fresh constant).
func (c *Ctx) Skolemize(t *Term) *Term {
	switch t.Op {
	case OpForall:
		m := map[int]*Term{}
		for _, b := range t.Bound {
			m[b.id] = c.Fresh("sk_"+strings.TrimRight(strings.SplitN(b.Name, "?", 2)[0], "|"), b.S)
		}
		return c.Skolemize(c.Subst(t.Args[0], m))
	case OpAnd:
		args := make([]*Term, len(t.Args))
		for i, a := range t.Args {
			args[i] = c.Skolemize(a)
		}
		return c.And(args...)
	case OpOr:
		args := make([]*Term, len(t.Args))
		for i, a := range t.Args {
			args[i] = c.Skolemize(a)
		}
		return c.Or(args...)
	case OpImplies:
		return c.Implies(t.Args[0], c.Skolemize(t.Args[1]))
	case OpIte:
		if t.S.K == KBool {
			return c.Ite(t.Args[0], c.Skolemize(t.Args[1]), c.Skolemize(t.Args[2]))
		}
	}
	return t
}

// NotGhost states that address a is not itself a ghost pseudo-field (negative field id).
func (c *Ctx) NotGhost(a *Term) *Term {
	switch a.Op {
	case OpFld:
		return c.Bool(a.K >= 0)
	case OpIdx, OpObj, OpNil:
		return c.True
	}
	fi := c.mk(&Term{Op: OpFldId, S: SInt, Args: []*Term{a}})
	lt := c.mk(&Term{Op: OpIntLt, S: SBool, Args: []*Term{fi, c.IntConst(0)}})
	return c.Not(c.And(c.IsFld(a), lt))
}
