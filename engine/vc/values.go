package vc

import (
	"fmt"
	"go/types"
	"math"
	"math/big"

	"golang.org/x/tools/go/ssa"
)

// ---- symbolic values ---------------------------------------------------------

type Val interface{}

// scalar: *Term (Bool, BV, Addr)

type SliceV struct {
	Base, Off, Len, Cap *Term
	Str                 bool // string (no capacity)
}

type StructV struct {
	T *types.Struct
	F []Val
}

type TupleV []Val

type IfaceV struct {
	Tag *Term // BV32 type id; 0 = nil interface
	Ptr *Term // Addr: the pointer itself for pointer-shaped dynamic values, else a box
}

type FuncV struct {
	Fn   *ssa.Function
	Free []Val
	Term *Term // opaque function value (Addr) when Fn == nil
}

// CellRef is the "address" of a register-like local.
type CellRef struct{ A *ssa.Alloc }

type Unsupported struct{ Msg string }

func (u Unsupported) Error() string { return "unsupported: " + u.Msg }

func unsupported(f string, a ...interface{}) {
	panic(Unsupported{fmt.Sprintf(f, a...)})
}

// pseudo field ids for the components of composite headers stored in memory
const (
	fSliceBase = -1
	fSliceOff  = -2
	fSliceLen  = -3
	fSliceCap  = -4
	fIfaceTag  = -5
	fIfacePtr  = -6
	fGhostOut  = -10 // out(w): bytes accepted by writer w
	fGhostLen  = -11
	fGhostHeld = -12 // held(mu)
	fMapLen    = -13
	fGhostMisc = -20
	fGhostSeq  = -21
	fGhostCap  = -22
	fGhostMap  = -23
	fMapPresent = -24
	fMapVisited = -25 // ghost: key already yielded by the current range loop over the map
)

const maxLen = 1 << 48

func isIntKind(b *types.Basic) bool { return b.Info()&types.IsInteger != 0 }

func basicOf(t types.Type) *types.Basic {
	b, _ := t.Underlying().(*types.Basic)
	return b
}

func intWidth(t types.Type) (w int, signed bool, ok bool) {
	b := basicOf(t)
	if b == nil {
		return 0, false, false
	}
	switch b.Kind() {
	case types.Int8:
		return 8, true, true
	case types.Int16:
		return 16, true, true
	case types.Int32:
		return 32, true, true
	case types.Int64, types.Int, types.UntypedInt, types.UntypedRune:
		return 64, true, true
	case types.Uint8:
		return 8, false, true
	case types.Uint16:
		return 16, false, true
	case types.Uint32:
		return 32, false, true
	case types.Uint64, types.Uint, types.Uintptr:
		return 64, false, true
	}
	return 0, false, false
}

func isFloat(t types.Type) bool {
	b := basicOf(t)
	return b != nil && b.Info()&types.IsFloat != 0
}

func isString(t types.Type) bool {
	b := basicOf(t)
	return b != nil && b.Info()&types.IsString != 0
}

func isBool(t types.Type) bool {
	b := basicOf(t)
	return b != nil && b.Info()&types.IsBoolean != 0
}

// scalarKind classifies a type stored in one memory cell.
func scalarKind(t types.Type) (string, Sort, bool) {
	switch u := t.Underlying().(type) {
	case *types.Basic:
		if u.Info()&types.IsBoolean != 0 {
			return "bool", SBool, true
		}
		if w, _, ok := intWidth(t); ok {
			return fmt.Sprintf("bv%d", w), BV(w), true
		}
		switch u.Kind() {
		case types.Float64, types.UntypedFloat:
			return "bv64", BV(64), true
		case types.Float32:
			return "bv32", BV(32), true
		case types.UnsafePointer:
			return "addr", SAddr, true
		case types.UntypedNil:
			return "addr", SAddr, true
		}
		return "", Sort{}, false
	case *types.Pointer, *types.Map, *types.Chan, *types.Signature:
		return "addr", SAddr, true
	}
	return "", Sort{}, false
}

// ---- field and type ids ---------------------------------------------------------

func (e *Engine) fieldID(st *types.Struct, i int) int {
	f := st.Field(i)
	if id, ok := e.fieldIDs[f]; ok {
		return id
	}
	id := len(e.fieldIDs) + 1
	e.fieldIDs[f] = id
	e.fieldName[id] = f.Name()
	return id
}

// canonType removes type aliases (also below pointers / slices) so that a type has one identity.
func canonType(t types.Type) types.Type {
	switch x := types.Unalias(t).(type) {
	case *types.Pointer:
		return types.NewPointer(canonType(x.Elem()))
	case *types.Slice:
		return types.NewSlice(canonType(x.Elem()))
	default:
		return x
	}
}

func (e *Engine) typeID(t types.Type) int {
	t = canonType(t)
	k := types.TypeString(t, nil)
	if id, ok := e.typeIDs[k]; ok {
		return id
	}
	id := len(e.typeIDs) + 1
	e.typeIDs[k] = id
	e.typeByID[id] = t
	return id
}

func structOf(t types.Type) *types.Struct {
	s, _ := t.Underlying().(*types.Struct)
	return s
}

// ---- state -----------------------------------------------------------------------

type State struct {
	pc    *Term
	cells map[*ssa.Alloc]Val
	mems  map[string]*Mem
}

func (s *State) clone() *State {
	n := &State{pc: s.pc, cells: make(map[*ssa.Alloc]Val, len(s.cells)), mems: make(map[string]*Mem, len(s.mems))}
	for k, v := range s.cells {
		n.cells[k] = v
	}
	for k, v := range s.mems {
		n.mems[k] = v
	}
	return n
}

func (u *Unit) mem(st *State, kind string, s Sort) *Mem {
	if m, ok := st.mems[kind]; ok {
		return m
	}
	m, ok := u.entryMems[kind]
	if !ok {
		m = u.MC.Base("M_"+kind+"_0", s, true)
		u.entryMems[kind] = m
	}
	return m
}

func kindSort(kind string) Sort {
	switch kind {
	case "bool":
		return SBool
	case "addr":
		return SAddr
	case "bv8":
		return BV(8)
	case "bv16":
		return BV(16)
	case "bv32":
		return BV(32)
	case "bv64":
		return BV(64)
	}
	panic("kindSort " + kind)
}

var allKinds = []string{"bool", "addr", "bv8", "bv16", "bv32", "bv64"}

func (u *Unit) readCell(st *State, kind string, a *Term) *Term {
	if u.readRec != nil {
		u.readRec[kind] = true
	}
	return u.MC.Read(u.mem(st, kind, kindSort(kind)), a)
}

func (u *Unit) writeCell(st *State, kind string, a, v *Term) {
	st.mems[kind] = u.MC.Store(u.mem(st, kind, kindSort(kind)), a, v)
}

// ---- load / store of typed values ---------------------------------------------------

func (u *Unit) load(st *State, a *Term, t types.Type) Val {
	c := u.C
	if kind, _, ok := scalarKind(t); ok {
		return u.readCell(st, kind, a)
	}
	switch ut := t.Underlying().(type) {
	case *types.Basic:
		if ut.Info()&types.IsString != 0 {
			sv := &SliceV{Str: true,
				Base: u.readCell(st, "addr", c.Fld(a, fSliceBase)),
				Off:  u.readCell(st, "bv64", c.Fld(a, fSliceOff)),
				Len:  u.readCell(st, "bv64", c.Fld(a, fSliceLen))}
			sv.Cap = sv.Len
			u.assumeSliceWF(st, sv)
			return sv
		}
	case *types.Slice:
		sv := &SliceV{
			Base: u.readCell(st, "addr", c.Fld(a, fSliceBase)),
			Off:  u.readCell(st, "bv64", c.Fld(a, fSliceOff)),
			Len:  u.readCell(st, "bv64", c.Fld(a, fSliceLen)),
			Cap:  u.readCell(st, "bv64", c.Fld(a, fSliceCap))}
		u.assumeSliceWF(st, sv)
		return sv
	case *types.Struct:
		sv := &StructV{T: ut, F: make([]Val, ut.NumFields())}
		for i := 0; i < ut.NumFields(); i++ {
			sv.F[i] = u.load(st, c.Fld(a, u.E.fieldID(ut, i)), ut.Field(i).Type())
		}
		return sv
	case *types.Interface:
		return &IfaceV{Tag: u.readCell(st, "bv32", c.Fld(a, fIfaceTag)), Ptr: u.readCell(st, "addr", c.Fld(a, fIfacePtr))}
	case *types.Array:
		return &ArrayV{Base: a, T: ut, St: st.clone()}
	}
	unsupported("load of type %s", t)
	return nil
}

// ArrayV is an array value: a snapshot (state, address) pair.
type ArrayV struct {
	Base *Term
	T    *types.Array
	St   *State
	Zero bool
}

func (u *Unit) assumeSliceWF(st *State, sv *SliceV) {
	c := u.C
	if sv.Len.IsConst() && sv.Cap.IsConst() && sv.Off.IsConst() {
		return
	}
	lim := c.BVu(maxLen, 64)
	f := c.And(c.ULe(sv.Len, sv.Cap), c.ULe(sv.Cap, lim), c.ULe(sv.Off, lim), c.NotGhost(sv.Base),
		c.Implies(c.Eq(sv.Base, c.NilA), c.And(c.Eq(sv.Cap, c.BVu(0, 64)), c.Eq(sv.Off, c.BVu(0, 64)))))
	u.assumeGlobal(f)
}

func (u *Unit) store(st *State, a *Term, t types.Type, v Val) {
	c := u.C
	if kind, _, ok := scalarKind(t); ok {
		tv, ok := v.(*Term)
		if !ok {
			if fv, ok2 := v.(*FuncV); ok2 {
				tv = u.funcTerm(fv)
			} else {
				unsupported("store of %T as scalar %s", v, t)
			}
		}
		u.writeCell(st, kind, a, tv)
		return
	}
	switch ut := t.Underlying().(type) {
	case *types.Basic:
		if ut.Info()&types.IsString != 0 {
			sv := v.(*SliceV)
			u.writeCell(st, "addr", c.Fld(a, fSliceBase), sv.Base)
			u.writeCell(st, "bv64", c.Fld(a, fSliceOff), sv.Off)
			u.writeCell(st, "bv64", c.Fld(a, fSliceLen), sv.Len)
			return
		}
	case *types.Slice:
		sv := v.(*SliceV)
		u.writeCell(st, "addr", c.Fld(a, fSliceBase), sv.Base)
		u.writeCell(st, "bv64", c.Fld(a, fSliceOff), sv.Off)
		u.writeCell(st, "bv64", c.Fld(a, fSliceLen), sv.Len)
		u.writeCell(st, "bv64", c.Fld(a, fSliceCap), sv.Cap)
		return
	case *types.Struct:
		sv := v.(*StructV)
		for i := 0; i < ut.NumFields(); i++ {
			u.store(st, c.Fld(a, u.E.fieldID(ut, i)), ut.Field(i).Type(), sv.F[i])
		}
		if types.TypeString(t, nil) == "bytes.Buffer" {
			// the ghost model of a bytes.Buffer follows a whole-value store (only the zero value is ever stored)
			base := c.Fld(a, fGhostOut)
			u.writeCell(st, "bv64", c.Fld(base, fGhostLen), c.BVu(0, 64))
			u.writeCell(st, "bv64", c.Fld(a, fGhostCap), c.BVu(0, 64))
		}
		return
	case *types.Interface:
		iv := v.(*IfaceV)
		u.writeCell(st, "bv32", c.Fld(a, fIfaceTag), iv.Tag)
		u.writeCell(st, "addr", c.Fld(a, fIfacePtr), iv.Ptr)
		return
	case *types.Array:
		av := v.(*ArrayV)
		if av.Zero {
			u.zeroInit(st, a, t)
			return
		}
		// element-wise copy of the snapshot
		for _, lf := range u.leaves(ut.Elem(), nil) {
			m := u.mem(st, lf.kind, kindSort(lf.kind))
			src := u.mem(av.St, lf.kind, kindSort(lf.kind))
			st.mems[lf.kind] = u.MC.Copy(m, a, c.BVu(0, 64), src, av.Base, c.BVu(0, 64), c.BVu(uint64(ut.Len()), 64), lf.path)
		}
		return
	}
	unsupported("store of type %s", t)
}

func (u *Unit) funcTerm(fv *FuncV) *Term {
	if fv.Term != nil {
		return fv.Term
	}
	if fv.Fn != nil {
		id, ok := u.E.funcIDs[fv.Fn]
		if !ok {
			id = len(u.E.funcIDs) + 1
			u.E.funcIDs[fv.Fn] = id
		}
		return u.C.Obj(-1000000 - id)
	}
	return u.C.NilA
}

type leaf struct {
	path []int
	kind string
	t    types.Type
}

// leaves enumerates the scalar cells of a value of type t (not descending into arrays).
func (u *Unit) leaves(t types.Type, prefix []int) []leaf {
	if kind, _, ok := scalarKind(t); ok {
		return []leaf{{path: append([]int{}, prefix...), kind: kind, t: t}}
	}
	ap := func(f int) []int { return append(append([]int{}, prefix...), f) }
	switch ut := t.Underlying().(type) {
	case *types.Basic:
		if ut.Info()&types.IsString != 0 {
			return []leaf{{ap(fSliceBase), "addr", nil}, {ap(fSliceOff), "bv64", nil}, {ap(fSliceLen), "bv64", nil}}
		}
	case *types.Slice:
		return []leaf{{ap(fSliceBase), "addr", nil}, {ap(fSliceOff), "bv64", nil}, {ap(fSliceLen), "bv64", nil}, {ap(fSliceCap), "bv64", nil}}
	case *types.Interface:
		return []leaf{{ap(fIfaceTag), "bv32", nil}, {ap(fIfacePtr), "addr", nil}}
	case *types.Struct:
		var out []leaf
		for i := 0; i < ut.NumFields(); i++ {
			out = append(out, u.leaves(ut.Field(i).Type(), ap(u.E.fieldID(ut, i)))...)
		}
		return out
	case *types.Array:
		return []leaf{{path: append([]int{}, prefix...), kind: "array", t: t}}
	}
	unsupported("leaves of %s", t)
	return nil
}

// zeroInit makes every cell of a fresh object at a read as the zero value.
func (u *Unit) zeroInit(st *State, a *Term, t types.Type) {
	for _, lf := range u.leaves(t, nil) {
		addr := u.MC.withSuffix(a, lf.path)
		if lf.kind == "array" {
			at := lf.t.Underlying().(*types.Array)
			u.zeroArray(st, addr, at.Elem(), nil)
			continue
		}
		u.writeCell(st, lf.kind, addr, u.MC.zero(kindSort(lf.kind)))
	}
}

func (u *Unit) zeroArray(st *State, base *Term, elem types.Type, n *Term) {
	u.zeroArrayPath(st, base, elem, n, nil)
}

// zeroArrayPath: the elements [0,n) of the array at base read as zero, including every element of arrays nested in them.
func (u *Unit) zeroArrayPath(st *State, base *Term, elem types.Type, n *Term, prefix []int) {
	for _, lf := range u.leaves(elem, prefix) {
		if lf.kind == "array" {
			at := lf.t.Underlying().(*types.Array)
			u.zeroArrayPath(st, base, at.Elem(), n, append(append([]int{}, lf.path...), anyIdxSfx))
			continue
		}
		m := u.mem(st, lf.kind, kindSort(lf.kind))
		st.mems[lf.kind] = u.MC.ZeroRange(m, base, u.C.BVu(0, 64), n, lf.path)
	}
}

func (u *Unit) zeroVal(t types.Type) Val {
	c := u.C
	if _, s, ok := scalarKind(t); ok {
		return u.MC.zero(s)
	}
	z := c.BVu(0, 64)
	switch ut := t.Underlying().(type) {
	case *types.Basic:
		if ut.Info()&types.IsString != 0 {
			return &SliceV{Str: true, Base: c.NilA, Off: z, Len: z, Cap: z}
		}
	case *types.Slice:
		return &SliceV{Base: c.NilA, Off: z, Len: z, Cap: z}
	case *types.Struct:
		sv := &StructV{T: ut, F: make([]Val, ut.NumFields())}
		for i := range sv.F {
			sv.F[i] = u.zeroVal(ut.Field(i).Type())
		}
		return sv
	case *types.Interface:
		return &IfaceV{Tag: c.BVu(0, 32), Ptr: c.NilA}
	case *types.Array:
		return &ArrayV{T: ut, Zero: true}
	case *types.Tuple:
		tv := make(TupleV, ut.Len())
		for i := range tv {
			tv[i] = u.zeroVal(ut.At(i).Type())
		}
		return tv
	}
	unsupported("zero value of %s", t)
	return nil
}

// symVal creates an arbitrary value of type t describing entry-state / unknown data.
func (u *Unit) symVal(name string, t types.Type, entry bool) Val {
	c := u.C
	av := func(n string) *Term {
		if entry {
			return c.EntryAddrVar(n)
		}
		v := c.Var(n, SAddr)
		// remembered: an address value that exists now cannot denote an object allocated later
		u.symAddrs = append(u.symAddrs, v)
		return v
	}
	if kind, s, ok := scalarKind(t); ok {
		if kind == "addr" {
			return av(name)
		}
		return c.Var(name, s)
	}
	switch ut := t.Underlying().(type) {
	case *types.Basic:
		if ut.Info()&types.IsString != 0 {
			sv := &SliceV{Str: true, Base: av(name + ".base"), Off: c.Var(name+".off", BV(64)), Len: c.Var(name+".len", BV(64))}
			sv.Cap = sv.Len
			u.assumeSliceWF(nil, sv)
			return sv
		}
	case *types.Slice:
		sv := &SliceV{Base: av(name + ".base"), Off: c.Var(name+".off", BV(64)), Len: c.Var(name+".len", BV(64)), Cap: c.Var(name+".cap", BV(64))}
		u.assumeSliceWF(nil, sv)
		return sv
	case *types.Struct:
		sv := &StructV{T: ut, F: make([]Val, ut.NumFields())}
		for i := range sv.F {
			sv.F[i] = u.symVal(name+"."+ut.Field(i).Name(), ut.Field(i).Type(), entry)
		}
		return sv
	case *types.Interface:
		return &IfaceV{Tag: c.Var(name+".tag", BV(32)), Ptr: av(name + ".ptr")}
	case *types.Tuple:
		tv := make(TupleV, ut.Len())
		for i := range tv {
			tv[i] = u.symVal(fmt.Sprintf("%s.%d", name, i), ut.At(i).Type(), entry)
		}
		return tv
	case *types.Array:
		// an array value: the contents of some (entry-state) object
		return &ArrayV{Base: av(name + ".arr"), T: ut, St: &State{pc: c.True, cells: map[*ssa.Alloc]Val{}, mems: map[string]*Mem{}}}
	}
	unsupported("symbolic value of %s", t)
	return nil
}

func (u *Unit) freshName(prefix string) string {
	u.C.fresh++
	return fmt.Sprintf("%s!%d", prefix, u.C.fresh)
}

// iteVal merges two values of the same shape.
func (u *Unit) iteVal(cond *Term, a, b Val) Val {
	c := u.C
	if cond.IsTrue() {
		return a
	}
	if cond.IsFalse() {
		return b
	}
	switch x := a.(type) {
	case nil:
		return b
	case *Term:
		y, ok := b.(*Term)
		if !ok {
			if fv, ok2 := b.(*FuncV); ok2 {
				return c.Ite(cond, x, u.funcTerm(fv))
			}
			if b == nil {
				return a
			}
			unsupported("ite of %T and %T", a, b)
		}
		return c.Ite(cond, x, y)
	case *SliceV:
		y := b.(*SliceV)
		if x == y {
			return x
		}
		return &SliceV{Str: x.Str, Base: c.Ite(cond, x.Base, y.Base), Off: c.Ite(cond, x.Off, y.Off), Len: c.Ite(cond, x.Len, y.Len), Cap: c.Ite(cond, x.Cap, y.Cap)}
	case *StructV:
		y := b.(*StructV)
		if x == y {
			return x
		}
		r := &StructV{T: x.T, F: make([]Val, len(x.F))}
		for i := range x.F {
			r.F[i] = u.iteVal(cond, x.F[i], y.F[i])
		}
		return r
	case *IfaceV:
		y := b.(*IfaceV)
		if x == y {
			return x
		}
		return &IfaceV{Tag: c.Ite(cond, x.Tag, y.Tag), Ptr: c.Ite(cond, x.Ptr, y.Ptr)}
	case TupleV:
		y := b.(TupleV)
		r := make(TupleV, len(x))
		for i := range x {
			r[i] = u.iteVal(cond, x[i], y[i])
		}
		return r
	case *FuncV:
		if y, ok := b.(*FuncV); ok && y.Fn == x.Fn && len(x.Free) == 0 && len(y.Free) == 0 {
			return x
		}
		var yt *Term
		switch y := b.(type) {
		case *FuncV:
			yt = u.funcTerm(y)
		case *Term:
			yt = y
		}
		return &FuncV{Term: c.Ite(cond, u.funcTerm(x), yt)}
	case *ArrayV:
		y := b.(*ArrayV)
		if x == y || (x.Zero && y.Zero) {
			return x
		}
		unsupported("ite of array values")
	case CellRef:
		if y, ok := b.(CellRef); ok && y.A == x.A {
			return x
		}
		unsupported("ite of distinct cell references")
	}
	unsupported("iteVal %T", a)
	return nil
}

func sameVal(a, b Val) bool {
	switch x := a.(type) {
	case *Term:
		y, ok := b.(*Term)
		return ok && x == y
	case *SliceV:
		y, ok := b.(*SliceV)
		return ok && (x == y || (x.Base == y.Base && x.Off == y.Off && x.Len == y.Len && x.Cap == y.Cap))
	case *IfaceV:
		y, ok := b.(*IfaceV)
		return ok && (x == y || (x.Tag == y.Tag && x.Ptr == y.Ptr))
	case *StructV:
		y, ok := b.(*StructV)
		if !ok || len(x.F) != len(y.F) {
			return false
		}
		for i := range x.F {
			if !sameVal(x.F[i], y.F[i]) {
				return false
			}
		}
		return true
	case nil:
		return b == nil
	}
	return a == b
}

// constVal converts an ssa.Const.
func (u *Unit) constVal(k *ssa.Const) Val {
	c := u.C
	t := k.Type()
	if k.Value == nil {
		return u.zeroVal(t)
	}
	if isBool(t) {
		return c.Bool(constantBool(k))
	}
	if w, _, ok := intWidth(t); ok {
		bi, ok2 := constantBig(k)
		if !ok2 {
			unsupported("integer constant %s", k)
		}
		return c.BVConst(bi, w)
	}
	if isFloat(t) {
		f := k.Float64()
		if basicOf(t).Kind() == types.Float32 {
			return c.BVu(uint64(math.Float32bits(float32(f))), 32)
		}
		return c.BVu(math.Float64bits(f), 64)
	}
	if isString(t) {
		return u.strLit(constantString(k))
	}
	unsupported("constant %s of type %s", k, t)
	return nil
}

func (u *Unit) strLit(s string) *SliceV {
	c := u.C
	id, ok := u.E.strLits[s]
	if !ok {
		id = len(u.E.strLits) + 1
		u.E.strLits[s] = id
	}
	base := c.Obj(-2000000 - id)
	if len(s) == 0 {
		return &SliceV{Str: true, Base: c.NilA, Off: c.BVu(0, 64), Len: c.BVu(0, 64), Cap: c.BVu(0, 64)}
	}
	if !u.strLitDone[id] && len(s) <= 96 {
		u.strLitDone[id] = true
		m := u.mem(&State{mems: map[string]*Mem{}}, "bv8", BV(8))
		for i := 0; i < len(s); i++ {
			u.assumeGlobal(c.Eq(u.MC.Read(m, c.Idx(base, c.BVu(uint64(i), 64))), c.BVu(uint64(s[i]), 8)))
		}
	}
	n := c.BVu(uint64(len(s)), 64)
	return &SliceV{Str: true, Base: base, Off: c.BVu(0, 64), Len: n, Cap: n}
}

func bigFromInt64(v int64) *big.Int { return big.NewInt(v) }
