package vc

import (
	"fmt"
	"go/ast"
	"go/token"
	"go/types"
	"os"
	"path/filepath"
	"sort"
	"strconv"
	"strings"

	"golang.org/x/tools/go/packages"
	"golang.org/x/tools/go/ssa"
	"golang.org/x/tools/go/ssa/ssautil"
)

const ContractFileName = "contracts_verif.go"
const GenFileName = "zz_govc_contracts_gen.go"

type Engine struct {
	SkippedExterns []string // assumed contracts whose target does not exist in the loaded program (ignored)
	RepoDir   string
	MirrorDir string
	Fset      *token.FileSet
	Pkgs      []*packages.Package
	AllPkgs   map[string]*packages.Package
	Prog      *ssa.Program
	Sizes     types.Sizes

	Contracts  map[*ssa.Function]*BoundContract
	ByKey      map[string]*BoundContract // "pkgpath.Key"
	Externs    map[string]*BoundContract // by callee key string
	specFuncs  map[*types.Func]*specFunc
	Files      []*ContractFile
	GenText    map[string]string
	MirrorUsed map[string]string

	fieldIDs   map[*types.Var]int
	fieldName  map[int]string
	typeIDs    map[string]int
	typeByID   map[int]types.Type
	funcIDs    map[*ssa.Function]int
	strLits    map[string]int
	globals    map[*ssa.Global]int
	loopInfos  map[*ssa.Function]*loopInfo
	regAllocs  map[*ssa.Function]map[*ssa.Alloc]bool
	fileByName map[string]*ast.File
	intrinsics map[string]intrinsicFn
	roGlobals  map[string]bool
	Variants   []*BoundContract
	Lemmas     []*BoundContract
	recKinds   map[*specFunc][]string
	ghostNames map[string]int
	parenMarks map[token.Pos]string
	Errors     []string
}

type intrinsicFn func(fr *frame, st *State, fn *ssa.Function, args []Val, pos token.Pos) Val

func NewEngine(repo, mirror string) *Engine {
	e := &Engine{RepoDir: repo, MirrorDir: mirror,
		Contracts: map[*ssa.Function]*BoundContract{}, ByKey: map[string]*BoundContract{}, Externs: map[string]*BoundContract{},
		specFuncs: map[*types.Func]*specFunc{}, GenText: map[string]string{}, MirrorUsed: map[string]string{},
		fieldIDs: map[*types.Var]int{}, fieldName: map[int]string{}, typeIDs: map[string]int{}, typeByID: map[int]types.Type{},
		funcIDs: map[*ssa.Function]int{}, strLits: map[string]int{}, globals: map[*ssa.Global]int{},
		loopInfos: map[*ssa.Function]*loopInfo{}, regAllocs: map[*ssa.Function]map[*ssa.Alloc]bool{},
		fileByName: map[string]*ast.File{}, intrinsics: map[string]intrinsicFn{}, roGlobals: map[string]bool{},
		AllPkgs: map[string]*packages.Package{}, ghostNames: map[string]int{}, parenMarks: map[token.Pos]string{}}
	e.registerIntrinsics()
	return e
}

// Load parses contract files of the given package directories (relative to the repo), generates the
// overlay files, loads and type-checks the packages, builds SSA, and binds the contracts.
func (e *Engine) Load(pkgDirs []string) error {
	overlay := map[string][]byte{}
	var patterns []string
	for _, d := range pkgDirs {
		dir := filepath.Join(e.RepoDir, d)
		patterns = append(patterns, "./"+d)
		path := filepath.Join(dir, ContractFileName)
		src := "repo"
		if _, err := os.Stat(path); err != nil {
			// fall back to the mirror copy, supplied as an overlay
			mp := filepath.Join(e.MirrorDir, d, ContractFileName)
			data, err2 := os.ReadFile(mp)
			if err2 != nil {
				continue // package without contracts (loaded for its code only)
			}
			overlay[path] = data
			src = "mirror"
			cf, err := ParseContractFile(mp)
			if err != nil {
				return err
			}
			cf.PkgDir = dir
			cf.Path = path
			for _, fc := range cf.Funcs {
				fc.PkgDir = dir
			}
			e.Files = append(e.Files, cf)
		} else {
			cf, err := ParseContractFile(path)
			if err != nil {
				return err
			}
			e.Files = append(e.Files, cf)
			if mp := filepath.Join(e.MirrorDir, d, ContractFileName); true {
				a, _ := os.ReadFile(path)
				b, err := os.ReadFile(mp)
				if err == nil && string(a) != string(b) {
					src = "repo (differs from mirror)"
				}
			}
		}
		e.MirrorUsed[d] = src
	}
	for _, cf := range e.Files {
		txt, err := cf.Generate()
		if err != nil {
			return err
		}
		gp := filepath.Join(cf.PkgDir, GenFileName)
		overlay[gp] = []byte(txt)
		e.GenText[gp] = txt
	}
	cfg := &packages.Config{
		Mode:       packages.LoadAllSyntax,
		Dir:        e.RepoDir,
		BuildFlags: []string{"-tags=verif"},
		Overlay:    overlay,
		Env:        append(os.Environ(), "GOFLAGS=-mod=mod", "GOPROXY=off", "GOSUMDB=off", "GOTOOLCHAIN=local"),
	}
	pkgs, err := packages.Load(cfg, patterns...)
	if err != nil {
		return err
	}
	var errs []string
	packages.Visit(pkgs, nil, func(p *packages.Package) {
		e.AllPkgs[p.PkgPath] = p
		for _, er := range p.Errors {
			errs = append(errs, er.Error())
		}
	})
	if len(errs) > 0 {
		return fmt.Errorf("load errors:\n%s", strings.Join(errs, "\n"))
	}
	e.Pkgs = pkgs
	e.Fset = pkgs[0].Fset
	e.Sizes = types.SizesFor("gc", "amd64")
	prog, _ := ssautil.AllPackages(pkgs, ssa.NaiveForm|ssa.GlobalDebug)
	prog.Build()
	e.Prog = prog
	for _, p := range e.AllPkgs {
		for _, f := range p.Syntax {
			e.fileByName[e.Fset.Position(f.Pos()).Filename] = f
		}
	}
	return e.bind()
}

func (e *Engine) fileOf(pos token.Pos) *ast.File {
	return e.fileByName[e.Fset.Position(pos).Filename]
}

func (e *Engine) pkgByDir(dir string) *packages.Package {
	for _, p := range e.Pkgs {
		if len(p.GoFiles) > 0 && filepath.Dir(p.GoFiles[0]) == dir {
			return p
		}
		for _, f := range p.CompiledGoFiles {
			if filepath.Dir(f) == dir {
				return p
			}
		}
	}
	return nil
}

func (e *Engine) bind() error {
	for _, cf := range e.Files {
		pkg := e.pkgByDir(cf.PkgDir)
		if pkg == nil {
			return fmt.Errorf("no package loaded for %s", cf.PkgDir)
		}
		gp := filepath.Join(cf.PkgDir, GenFileName)
		var gen *ast.File
		for _, f := range pkg.Syntax {
			if e.Fset.Position(f.Pos()).Filename == gp {
				gen = f
			}
		}
		if gen == nil {
			return fmt.Errorf("generated contract file not part of package %s", pkg.PkgPath)
		}
		for _, cg := range gen.Comments {
			for _, cm := range cg.List {
				switch cm.Text {
				case "/*@old*/":
					e.parenMarks[cm.End()] = "old"
				case "/*@head*/":
					e.parenMarks[cm.End()] = "head"
				case "/*@final*/":
					e.parenMarks[cm.End()] = "final"
				default:
					if strings.HasPrefix(cm.Text, "/*@exit") {
						e.parenMarks[cm.End()] = "exit:" + strings.TrimSuffix(strings.TrimPrefix(cm.Text, "/*@exit"), "*/")
					}
				}
			}
		}
		decls := map[string]*ast.FuncDecl{}
		for _, d := range gen.Decls {
			if fd, ok := d.(*ast.FuncDecl); ok {
				decls[fd.Name.Name] = fd
			}
		}
		for _, g := range cf.Globals {
			if g.Kind == "global" {
				f := strings.Fields(g.Text)
				if len(f) == 2 && f[1] == "readonly" {
					key := pkg.PkgPath + "." + f[0]
					if i := strings.Index(f[0], "."); i > 0 {
						// a variable of another package: "global scan.Semicolon readonly" (alias from the imports)
						for _, im := range cf.Imports {
							fi := strings.Fields(im)
							path := strings.Trim(fi[len(fi)-1], "\"")
							alias := path[strings.LastIndex(path, "/")+1:]
							if len(fi) == 2 {
								alias = fi[0]
							}
							if alias == f[0][:i] {
								key = path + "." + f[0][i+1:]
							}
						}
					}
					e.roGlobals[key] = true
				}
			}
		}
		for _, fc := range cf.Funcs {
			fd := decls[fc.GenName]
			if fd == nil {
				return fmt.Errorf("%s:%d: generated function %s missing", fc.File, fc.Line, fc.GenName)
			}
			bc := &BoundContract{FC: fc, Pkg: pkg, Decl: fd, Locals: map[*types.Var]string{}, Inv: map[int][]ClauseExpr{},
				Dec: map[int]ClauseExpr{}, LoopMod: map[int][]ast.Expr{}, LoopSplit: map[int][]ast.Expr{}, Unroll: map[int]int{}, HasLoop: map[int]bool{},
				FreshResult: map[int]bool{}, FreshOrNil: map[int]bool{}, Known: map[string]string{}, UseLemma: map[int][]*ast.FuncLit{}, LoopExit: map[int][]ClauseExpr{}}
			obj := pkg.TypesInfo.Defs[fd.Name].(*types.Func)
			bc.Sig = obj.Type().(*types.Signature)
			if fc.Spec {
				sf := &specFunc{bc: bc, decl: fd, pkg: pkg}
				e.specFuncs[obj] = sf
				if fc.Lemma {
					bc.Lemma = sf
					sf.from = decls[fc.Name+"__from"]
					if ud := decls[fc.Name+"__uses"]; ud != nil {
						sf.usesDecl = ud
						for _, st := range ud.Body.List {
							if es, ok := st.(*ast.ExprStmt); ok {
								if call, ok := es.X.(*ast.CallExpr); ok && len(call.Args) == 2 {
									if fl, ok := call.Args[1].(*ast.FuncLit); ok {
										sf.uses = append(sf.uses, fl)
									}
								}
							}
						}
					}
					e.Lemmas = append(e.Lemmas, bc)
					e.ByKey[pkg.PkgPath+".lemma "+fc.Name] = bc
				}
				continue
			}
			if r := bc.Sig.Recv(); r != nil {
				bc.Params = append(bc.Params, r)
			}
			for i := 0; i < bc.Sig.Params().Len(); i++ {
				bc.Params = append(bc.Params, bc.Sig.Params().At(i))
			}
			for i := 0; i < bc.Sig.Results().Len(); i++ {
				bc.Results = append(bc.Results, bc.Sig.Results().At(i))
			}
			if err := e.bindClauses(bc); err != nil {
				return err
			}
			if fc.Extern {
				key, err := e.externKey(bc)
				if err != nil {
					if strings.Contains(err.Error(), "not found") {
						// an assumed contract on a function the program does not contain (the code does not import that
						// package, or the dependency dropped the function): it constrains nothing; if the code now calls
						// something else instead, that call is unmodelled and the obligations depending on it fail
						e.SkippedExterns = append(e.SkippedExterns, err.Error())
						continue
					}
					return err
				}
				if err := e.checkExternSig(bc, key); err != nil {
					return err
				}
				e.Externs[pkg.PkgPath+"|"+key] = bc
				continue
			}
			// target function
			fn, err := e.findTarget(pkg, fc)
			if err != nil {
				e.Errors = append(e.Errors, err.Error())
				continue
			}
			if !sigMatches(fn.Signature, bc.Sig) {
				e.Errors = append(e.Errors, fmt.Sprintf("stale contract %s:%d: signature of %s is now %s", fc.File, fc.Line, fc.Key(), fn.Signature))
				continue
			}
			bc.Fn = fn
			bc.Obj, _ = fn.Object().(*types.Func)
			if bc.Variant != "" {
				// an additional contract of the same function, verified on its own; callers use the default one
				e.Variants = append(e.Variants, bc)
				e.ByKey[pkg.PkgPath+"."+fc.Key()+"["+bc.Variant+"]"] = bc
				continue
			}
			e.Contracts[fn] = bc
			e.ByKey[pkg.PkgPath+"."+fc.Key()] = bc
		}
	}
	return nil
}

func sigMatches(real, gen *types.Signature) bool {
	if (real.Recv() == nil) != (gen.Recv() == nil) {
		return false
	}
	if real.Recv() != nil && !types.Identical(real.Recv().Type(), gen.Recv().Type()) {
		return false
	}
	if real.Params().Len() != gen.Params().Len() || real.Results().Len() != gen.Results().Len() || real.Variadic() != gen.Variadic() {
		return false
	}
	for i := 0; i < real.Params().Len(); i++ {
		if !types.Identical(real.Params().At(i).Type(), gen.Params().At(i).Type()) {
			return false
		}
	}
	for i := 0; i < real.Results().Len(); i++ {
		if !types.Identical(real.Results().At(i).Type(), gen.Results().At(i).Type()) {
			return false
		}
	}
	return true
}

func (e *Engine) findTarget(pkg *packages.Package, fc *FuncContract) (*ssa.Function, error) {
	sp := e.Prog.Package(pkg.Types)
	if sp == nil {
		return nil, fmt.Errorf("no SSA package for %s", pkg.PkgPath)
	}
	if fc.Recv == "" {
		if fn := sp.Func(fc.Name); fn != nil {
			return fn, nil
		}
		return nil, fmt.Errorf("stale contract %s:%d: function %s not found in %s", fc.File, fc.Line, fc.Name, pkg.PkgPath)
	}
	tn := strings.TrimPrefix(fc.Recv, "*")
	obj := pkg.Types.Scope().Lookup(tn)
	if obj == nil {
		return nil, fmt.Errorf("stale contract %s:%d: type %s not found", fc.File, fc.Line, tn)
	}
	var t types.Type = obj.Type()
	if strings.HasPrefix(fc.Recv, "*") {
		t = types.NewPointer(t)
	}
	sel := e.Prog.MethodSets.MethodSet(t).Lookup(pkg.Types, fc.Name)
	if sel == nil {
		return nil, fmt.Errorf("stale contract %s:%d: method %s not found", fc.File, fc.Line, fc.Key())
	}
	fn := e.Prog.MethodValue(sel)
	if fn == nil {
		return nil, fmt.Errorf("stale contract %s:%d: no SSA for %s", fc.File, fc.Line, fc.Key())
	}
	return fn, nil
}

// externKey: the key used at call sites:  fn.String() for static callees, "(iface type).Method" for invokes.
func (e *Engine) externKey(bc *BoundContract) (string, error) {
	fc := bc.FC
	if fc.Recv != "" {
		rt := bc.Params[0].Type()
		if _, isIface := rt.Underlying().(*types.Interface); isIface {
			return "(" + types.TypeString(types.Unalias(rt), nil) + ")." + fc.Name, nil
		}
		// concrete method: find ssa function
		ms := e.Prog.MethodSets.MethodSet(rt)
		for i := 0; i < ms.Len(); i++ {
			if ms.At(i).Obj().Name() == fc.Name {
				// a method promoted from an embedded field is called directly on that field in SSA form (no wrapper):
				// the assumed contract binds to the declared method (its receiver is the embedded field's address)
				if len(ms.At(i).Index()) > 1 {
					if mf, ok := ms.At(i).Obj().(*types.Func); ok {
						if fn := e.Prog.FuncValue(mf); fn != nil {
							return fn.String(), nil
						}
					}
				}
				if fn := e.Prog.MethodValue(ms.At(i)); fn != nil {
					return fn.String(), nil
				}
			}
		}
		return "", fmt.Errorf("%s:%d: extern method %s not found", fc.File, fc.Line, fc.Key())
	}
	// package function "pkg.Name"
	parts := strings.SplitN(fc.Name, ".", 2)
	if len(parts) != 2 {
		return "", fmt.Errorf("%s:%d: extern function must be qualified: %s", fc.File, fc.Line, fc.Name)
	}
	// an import alias of the contract file ("//@ import gosdp \"github.com/...\"") takes precedence
	for _, cf := range e.Files {
		if cf.Path != fc.File && cf.PkgDir != fc.PkgDir {
			continue
		}
		for _, im := range cf.Imports {
			f := strings.Fields(im)
			if len(f) == 0 {
				continue
			}
			// the contract file's own imports decide which package a qualifier means ("rand" is crypto/rand when the
			// file imports crypto/rand, whatever other packages of that name the program contains)
			p := e.AllPkgs[strings.Trim(f[len(f)-1], "\"")]
			if p == nil {
				continue
			}
			name := p.Name
			if len(f) == 2 {
				name = f[0]
			}
			if name == parts[0] {
				if sp := e.Prog.Package(p.Types); sp != nil {
					if fn := sp.Func(parts[1]); fn != nil {
						return fn.String(), nil
					}
				}
			}
		}
	}
	var paths []string
	for path, p := range e.AllPkgs {
		if p.Name == parts[0] {
			paths = append(paths, path)
		}
	}
	sort.Strings(paths) // deterministic when several packages share the name
	for _, path := range paths {
		if sp := e.Prog.Package(e.AllPkgs[path].Types); sp != nil {
			if fn := sp.Func(parts[1]); fn != nil {
				return fn.String(), nil
			}
		}
	}
	return "", fmt.Errorf("%s:%d: extern function %s not found", fc.File, fc.Line, fc.Name)
}

func (e *Engine) bindClauses(bc *BoundContract) error {
	fc := bc.FC
	info := bc.Pkg.TypesInfo
	// statements in order: var decls for locals, then clause calls tagged with "// clause N" ordering
	var calls []*ast.CallExpr
	for _, s := range bc.Decl.Body.List {
		switch x := s.(type) {
		case *ast.DeclStmt:
			gd := x.Decl.(*ast.GenDecl)
			for _, sp := range gd.Specs {
				vs := sp.(*ast.ValueSpec)
				for _, n := range vs.Names {
					bc.Locals[info.Defs[n].(*types.Var)] = n.Name
				}
			}
		case *ast.ExprStmt:
			if c, ok := x.X.(*ast.CallExpr); ok {
				calls = append(calls, c)
			}
		}
	}
	ci := 0
	for i := range fc.Clauses {
		cl := &fc.Clauses[i]
		switch cl.Kind {
		case "requires", "ensures", "invariant", "decreases", "modifies", "fresh", "freshornil", "assert", "assume", "split", "appends", "appendsAll", "copies", "mapStore", "mapDelete", "uselemma", "exit", "onpanic":
			if ci >= len(calls) {
				return fmt.Errorf("%s:%d: clause/statement mismatch", fc.File, cl.Line)
			}
			call := calls[ci]
			ci++
			switch cl.Kind {
			case "requires":
				bc.Requires = append(bc.Requires, ClauseExpr{call.Args[0], cl, bc})
			case "ensures":
				bc.Ensures = append(bc.Ensures, ClauseExpr{call.Args[0], cl, bc})
			case "onpanic":
				bc.OnPanic = append(bc.OnPanic, ClauseExpr{call.Args[0], cl, bc})
			case "assert", "assume":
				bc.Asserts = append(bc.Asserts, ClauseExpr{call.Args[0], cl, bc})
			case "appends":
				bc.Appends = append(bc.Appends, [2]ast.Expr{call.Args[0], call.Args[1]})
			case "appendsAll":
				bc.AppendsAll = append(bc.AppendsAll, [2]ast.Expr{call.Args[0], call.Args[1]})
			case "mapStore":
				bc.MapOps = append(bc.MapOps, []ast.Expr{call.Args[0], call.Args[1], call.Args[2]})
			case "mapDelete":
				bc.MapOps = append(bc.MapOps, []ast.Expr{call.Args[0], call.Args[1]})
			case "copies":
				bc.Copies = append(bc.Copies, [3]ast.Expr{call.Args[0], call.Args[1], call.Args[2]})
			case "exit":
				if cl.Loop < 0 {
					return fmt.Errorf("%s:%d: exit needs 'loop N: exit <expr>'", fc.File, cl.Line)
				}
				bc.LoopExit[cl.Loop] = append(bc.LoopExit[cl.Loop], ClauseExpr{call.Args[1], cl, bc})
				bc.HasLoop[cl.Loop] = true
			case "uselemma":
				bc.UseLemma[cl.Loop] = append(bc.UseLemma[cl.Loop], call.Args[1].(*ast.FuncLit))
				if cl.Loop >= 0 {
					bc.HasLoop[cl.Loop] = true
				}
			case "split":
				if cl.Loop >= 0 {
					bc.LoopSplit[cl.Loop] = append(bc.LoopSplit[cl.Loop], call.Args[1:]...)
					bc.HasLoop[cl.Loop] = true
				} else {
					bc.Split = append(bc.Split, call.Args[1:]...)
				}
			case "invariant":
				bc.Inv[cl.Loop] = append(bc.Inv[cl.Loop], ClauseExpr{call.Args[1], cl, bc})
				bc.HasLoop[cl.Loop] = true
			case "decreases":
				bc.Dec[cl.Loop] = ClauseExpr{call.Args[1], cl, bc}
				bc.HasLoop[cl.Loop] = true
			case "modifies":
				if cl.Loop >= 0 {
					bc.LoopMod[cl.Loop] = append(bc.LoopMod[cl.Loop], call.Args[1:]...)
					if bc.LoopMod[cl.Loop] == nil {
						bc.LoopMod[cl.Loop] = []ast.Expr{}
					}
					bc.HasLoop[cl.Loop] = true
				} else {
					bc.HasModifies = true
					for _, a := range call.Args {
						if c2, ok := a.(*ast.CallExpr); ok {
							if id, ok := c2.Fun.(*ast.Ident); ok && id.Name == "all" {
								bc.ModifiesAll = true
							}
						}
					}
					bc.Modifies = append(bc.Modifies, call.Args...)
				}
			case "fresh", "freshornil":
				for _, a := range call.Args {
					if id, ok := a.(*ast.Ident); ok {
						for ri, r := range bc.Results {
							if info.Uses[id] == r {
								bc.FreshResult[ri] = true
								if cl.Kind == "freshornil" {
									bc.FreshOrNil[ri] = true
								}
							}
						}
					}
				}
			}
		case "inline":
			bc.Inline = true
		case "calls_only":
			for _, f := range strings.Split(cl.Text, ",") {
				bc.CallsOnly = append(bc.CallsOnly, strings.TrimSpace(f))
			}
		case "pure":
			bc.Pure = true
		case "terminates":
			bc.Terminates = true
		case "recovers":
			bc.Recovers = true
		case "panics":
			bc.MayPanic = true
		case "nopanic":
			// "nopanic F G ...": in this unit, calls of the may-panic callees F, G ... are assumed not to panic
			// (e.g. "the stream holds enough data"); listed as an assumption of the unit
			if bc.NoPanic == nil {
				bc.NoPanic = map[string]bool{}
			}
			for _, f := range strings.Fields(strings.ReplaceAll(cl.Text, ",", " ")) {
				bc.NoPanic[f] = true
			}
		case "partial":
			bc.Partial = true
		case "trusted":
			bc.Trusted = true
		case "variant":
			bc.Variant = strings.TrimSpace(cl.Text)
		case "unroll":
			n, err := strconv.Atoi(strings.TrimSpace(cl.Text))
			if err != nil || cl.Loop < 0 {
				return fmt.Errorf("%s:%d: unroll needs 'loop N: unroll K'", fc.File, cl.Line)
			}
			bc.Unroll[cl.Loop] = n
			bc.HasLoop[cl.Loop] = true
		case "known":
			f := strings.Fields(cl.Text)
			if len(f) >= 2 {
				bc.Known[f[0]] = f[1]
			}
		}
	}
	return nil
}

func (e *Engine) contractFor(fn *ssa.Function) *BoundContract { return e.Contracts[fn] }

// externFor: assumed contracts are scoped to the package whose contract file declares them.
func (e *Engine) externFor(caller *ssa.Function, key string) *BoundContract {
	for f := caller; f != nil; f = f.Parent() {
		if f.Pkg != nil {
			if bc, ok := e.Externs[f.Pkg.Pkg.Path()+"|"+key]; ok {
				return bc
			}
			break
		}
	}
	return nil
}

func (e *Engine) intrinsic(fn *ssa.Function) intrinsicFn {
	return e.intrinsics[fn.String()]
}

func (e *Engine) typeIDByName(name string) int {
	for k, id := range e.typeIDs {
		if k == name || strings.HasSuffix(k, "/"+name) || strings.HasSuffix(k, "/"+strings.TrimPrefix(name, "*")) && strings.HasPrefix(name, "*") == strings.HasPrefix(k, "*") {
			return id
		}
	}
	// resolve through loaded packages: name like "*rtp.Packet"
	ptr := strings.HasPrefix(name, "*")
	n := strings.TrimPrefix(name, "*")
	parts := strings.SplitN(n, ".", 2)
	if len(parts) == 2 {
		for _, p := range e.AllPkgs {
			if p.Name == parts[0] {
				if o := p.Types.Scope().Lookup(parts[1]); o != nil {
					var t types.Type = o.Type()
					if ptr {
						t = types.NewPointer(t)
					}
					return e.typeID(t)
				}
			}
		}
	}
	panic("typeIs: unknown type " + name)
}

// ---- globals ---------------------------------------------------------------------------------

func (e *Engine) globalAddr(u *Unit, g *ssa.Global) Val {
	id, ok := e.globals[g]
	if !ok {
		id = len(e.globals) + 1
		e.globals[g] = id
	}
	a := u.C.Obj(-id)
	u.globalFacts(g, a)
	return a
}

func (e *Engine) globalByObj(v *types.Var) *ssa.Global {
	if v.Pkg() == nil {
		return nil
	}
	sp := e.Prog.Package(v.Pkg())
	if sp == nil {
		return nil
	}
	g, _ := sp.Members[v.Name()].(*ssa.Global)
	return g
}

// ---- driver -----------------------------------------------------------------------------------

type FuncReport struct {
	Key      string
	Fn       string
	Unit     *Unit
	Err      string // unsupported / stale
	Stale    bool
	Contract *BoundContract
}

// VerifyFunc generates the obligations of one function under contract.
func (e *Engine) VerifyFunc(bc *BoundContract) (rep *FuncReport) {
	if bc.Lemma != nil {
		return e.VerifyLemma(bc)
	}
	fn := bc.Fn
	rep = &FuncReport{Key: bc.KeyString(), Fn: fn.String(), Contract: bc}
	u := e.NewUnit(fn, bc)
	rep.Unit = u
	defer func() {
		if r := recover(); r != nil {
			switch x := r.(type) {
			case Unsupported:
				rep.Err = x.Error()
			case StaleContract:
				rep.Err = x.Error()
				rep.Stale = true
			case string:
				rep.Err = "contract error: " + x
			default:
				panic(r)
			}
		}
	}()
	c := u.C
	st := &State{pc: c.True, cells: map[*ssa.Alloc]Val{}, mems: map[string]*Mem{}}
	var args []Val
	for _, p := range fn.Params {
		args = append(args, u.symVal("p_"+p.Name(), p.Type(), true))
	}
	fr := u.newFrame(fn, nil)
	fr.bc = bc
	fr.top = true
	fr.entry = st
	fr.params = args
	u.entryState = st
	u.params = args
	// preconditions
	env := u.newSpecEnv(bc, st, st, args, nil)
	var pre []*Term
	for _, rq := range bc.Requires {
		t := env.evalBool(rq.Expr)
		pre = append(pre, t)
		u.assumeGlobal(t)
	}
	u.assumeLemmas(bc, nil, st, -1, nil)
	// vacuity guard: the precondition (and all background assumptions) must be satisfiable
	u.addObl(&Obligation{Kind: "cover", Name: "requires satisfiable", PC: c.True, Goal: c.False, Expect: "sat", Pos: e.Fset.Position(fn.Pos())})
	if bc.HasModifies {
		u.fnRegion = env.region(bc.Modifies, bc.ModifiesAll)
	}
	if bc.Recovers {
		if err := checkRecoverShape(fn); err != "" {
			u.addObl(&Obligation{Kind: "panic-contained", Name: "deferred recover shape: " + err, PC: c.True, Goal: c.False, Pos: e.Fset.Position(fn.Pos())})
		} else {
			u.addObl(&Obligation{Kind: "panic-contained", Name: "first deferred call recovers unconditionally", PC: c.True, Goal: c.True, Pos: e.Fset.Position(fn.Pos())})
		}
	}
	if len(bc.CallsOnly) > 0 {
		for _, bad := range calleesOutside(fn, bc.CallsOnly) {
			u.addObl(&Obligation{Kind: "calls", Name: "calls only whitelisted functions: " + bad, PC: c.True, Goal: c.False, Pos: e.Fset.Position(fn.Pos())})
		}
		u.addObl(&Obligation{Kind: "calls", Name: "callee set within " + strings.Join(bc.CallsOnly, ", "), PC: c.True, Goal: c.True, Pos: e.Fset.Position(fn.Pos())})
	}
	// optional function-level case split: the body is verified once per case
	var splitTerms []*Term
	for _, se := range bc.Split {
		splitTerms = append(splitTerms, env.evalBool(se))
	}
	anyExit := false
	for _, cs := range u.enumCases(splitTerms) {
		stc := st.clone()
		restore := u.enterCase(stc, cs)
		if len(cs.terms) > 0 {
			// skip cases excluded by the precondition
			fr = u.newFrame(fn, nil)
			fr.bc = bc
			fr.top = true
			fr.entry = stc
			fr.params = args
		}
		vals, out := u.runFunction(fr, stc.clone(), args)
		if out != nil {
			anyExit = true
			post := u.newSpecEnv(bc, out, stc, args, vals)
			post.fr = nil
			post.finalFr = fr
			post.finalSt = out
			for _, en := range bc.Ensures {
				enc := en
				o := &Obligation{Kind: "ensures", Name: en.Text(), PC: out.pc, Goal: post.evalBool(en.Expr), Pos: e.Fset.Position(fn.Pos()), Clause: &enc}
				if en.Clause.Name != "" {
					if k, ok := bc.Known[en.Clause.Name]; ok {
						o.Known = k
					}
				}
				u.addObl(o)
			}
			// "fresh r": the result is an object allocated during the call (decided on the address term)
			for ri := range bc.Results {
				if !bc.FreshResult[ri] || ri >= len(vals) {
					continue
				}
				var a *Term
				switch v := vals[ri].(type) {
				case *IfaceV:
					a = v.Ptr
				case *Term:
					a = v
				case *SliceV:
					a = v.Base
				}
				g := c.False
				if a != nil {
					g = freshTerm(c, a, bc.FreshOrNil[ri])
				}
				u.addObl(&Obligation{Kind: "ensures", Name: "fresh " + bc.Results[ri].Name(), PC: out.pc, Goal: g, Pos: e.Fset.Position(fn.Pos())})
			}
			if len(cs.terms) == 0 {
				// canary: the exit must be reachable (otherwise every postcondition is vacuous)
				u.addObl(&Obligation{Kind: "cover", Name: "exit reachable", PC: out.pc, Goal: c.False, Expect: "sat", Pos: e.Fset.Position(fn.Pos())})
			}
		}
		restore()
	}
	// an assert[call:F] clause that matched no call site checks nothing: the contract no longer fits the code
	for _, as := range bc.Asserts {
		if (strings.HasPrefix(as.Clause.Name, "call:") || strings.HasPrefix(as.Clause.Name, "after:")) && !u.assertHit[as.Clause] {
			u.addObl(&Obligation{Kind: "assert", Name: "clause matches a call site: assert[" + as.Clause.Name + "] " + strings.Join(strings.Fields(as.Clause.Text), " "), PC: c.True, Goal: c.False, Pos: e.Fset.Position(fn.Pos())})
		}
	}
	if !anyExit && !bc.Recovers {
		u.addObl(&Obligation{Kind: "cover", Name: "exit reachable", PC: c.False, Goal: c.False, Expect: "sat", Pos: e.Fset.Position(fn.Pos())})
	}
	return rep
}

// checkRecoverShape: the function defers a closure that calls recover() unconditionally in its entry block and does
// not re-panic. Panics are contained from that defer statement onward (frame.armed); what runs before it is not.
func checkRecoverShape(fn *ssa.Function) string {
	if fn.Recover == nil {
		return "function has no recover block"
	}
	if recoveringDefer(fn) == nil {
		return "no deferred function literal that calls recover() unconditionally (and never re-panics)"
	}
	return ""
}

// recoveringDefer returns the first defer statement (in block order) whose function literal calls recover()
// unconditionally in its entry block and contains no panic.
func recoveringDefer(fn *ssa.Function) *ssa.Defer {
	for _, blk := range fn.Blocks {
		for _, in := range blk.Instrs {
			d, ok := in.(*ssa.Defer)
			if !ok {
				continue
			}
			var cf *ssa.Function
			if mc, ok := d.Call.Value.(*ssa.MakeClosure); ok {
				cf, _ = mc.Fn.(*ssa.Function)
			} else if f, ok := d.Call.Value.(*ssa.Function); ok {
				cf = f
			}
			if cf == nil || len(cf.Blocks) == 0 {
				continue
			}
			found := false
			for _, in2 := range cf.Blocks[0].Instrs {
				if c, ok := in2.(*ssa.Call); ok {
					if b, ok := c.Call.Value.(*ssa.Builtin); ok && b.Name() == "recover" {
						found = true
					}
				}
			}
			if !found {
				continue
			}
			repanics := false
			for _, b := range cf.Blocks {
				for _, in2 := range b.Instrs {
					if _, ok := in2.(*ssa.Panic); ok {
						repanics = true
					}
				}
			}
			if !repanics {
				return d
			}
		}
	}
	return nil
}

// SortedContracts returns bound contracts in a stable order.
func (e *Engine) SortedContracts() []*BoundContract {
	var out []*BoundContract
	for _, bc := range e.Contracts {
		if !bc.Trusted {
			out = append(out, bc)
		}
	}
	out = append(out, e.Variants...)
	out = append(out, e.Lemmas...)
	sort.Slice(out, func(i, j int) bool {
		a, b := out[i], out[j]
		if a.Pkg.PkgPath != b.Pkg.PkgPath {
			return a.Pkg.PkgPath < b.Pkg.PkgPath
		}
		return a.FC.Line < b.FC.Line
	})
	return out
}

// calleesOutside lists the calls (static callees, interface methods, go/defer targets) of fn that are not whitelisted.
func calleesOutside(fn *ssa.Function, allowed []string) []string {
	ok := map[string]bool{}
	for _, a := range allowed {
		ok[a] = true
	}
	var bad []string
	seen := map[string]bool{}
	var visit func(f *ssa.Function)
	visit = func(f *ssa.Function) {
		for _, b := range f.Blocks {
			for _, in := range b.Instrs {
				var cc *ssa.CallCommon
				switch x := in.(type) {
				case *ssa.Call:
					cc = &x.Call
				case *ssa.Defer:
					cc = &x.Call
				case *ssa.Go:
					cc = &x.Call
				default:
					continue
				}
				name := ""
				if cc.IsInvoke() {
					name = "(" + types.TypeString(types.Unalias(cc.Value.Type()), nil) + ")." + cc.Method.Name()
				} else if sf := cc.StaticCallee(); sf != nil {
					name = sf.String()
				} else if _, isB := cc.Value.(*ssa.Builtin); isB {
					continue
				} else if ld, ok := cc.Value.(*ssa.UnOp); ok && ld.Op == token.MUL {
					if g, ok := ld.X.(*ssa.Global); ok {
						name = "var " + g.Pkg.Pkg.Path() + "." + g.Name() // call through a package-level function variable
					} else {
						name = "dynamic call"
					}
				} else {
					name = "dynamic call"
				}
				if !ok[name] && !seen[name] {
					seen[name] = true
					bad = append(bad, name)
				}
			}
		}
		for _, af := range f.AnonFuncs {
			visit(af)
		}
	}
	visit(fn)
	sort.Strings(bad)
	return bad
}

// checkExternSig compares the declared signature of an assumed contract with the real callee.
func (e *Engine) checkExternSig(bc *BoundContract, key string) error {
	var real *types.Signature
	fc := bc.FC
	if fc.Recv != "" {
		rt := bc.Params[0].Type()
		ms := e.Prog.MethodSets.MethodSet(rt)
		if it, ok := rt.Underlying().(*types.Interface); ok {
			for i := 0; i < it.NumMethods(); i++ {
				if it.Method(i).Name() == fc.Name {
					real = it.Method(i).Type().(*types.Signature)
				}
			}
		} else {
			for i := 0; i < ms.Len(); i++ {
				if ms.At(i).Obj().Name() == fc.Name {
					real = ms.At(i).Type().(*types.Signature)
				}
			}
		}
	} else {
		for _, fn := range ssautilAll(e.Prog) {
			if fn.String() == key {
				real = fn.Signature
			}
		}
	}
	if real == nil {
		return nil
	}
	gen := bc.Sig
	off := 0
	if fc.Recv != "" {
		off = 1
	}
	bad := real.Params().Len() != gen.Params().Len()-off || real.Results().Len() != gen.Results().Len()
	if !bad {
		for i := 0; i < real.Params().Len(); i++ {
			if !types.Identical(real.Params().At(i).Type(), gen.Params().At(i+off).Type()) {
				bad = true
			}
		}
		for i := 0; i < real.Results().Len(); i++ {
			if !types.Identical(real.Results().At(i).Type(), gen.Results().At(i).Type()) {
				bad = true
			}
		}
	}
	if bad {
		return fmt.Errorf("%s:%d: assumed contract %s does not match the callee's signature %s", fc.File, fc.Line, fc.Key(), real)
	}
	return nil
}

func ssautilAll(prog *ssa.Program) []*ssa.Function {
	var out []*ssa.Function
	for _, p := range prog.AllPackages() {
		for _, m := range p.Members {
			if f, ok := m.(*ssa.Function); ok {
				out = append(out, f)
			}
		}
	}
	return out
}

// freshTerm: the address denotes (a cell of) an object allocated during the call; nil counts as not fresh.
func freshTerm(c *Ctx, t *Term, nilOK bool) *Term {
	if t.Op == OpIte {
		return c.Ite(t.Args[0], freshTerm(c, t.Args[1], nilOK), freshTerm(c, t.Args[2], nilOK))
	}
	if nilOK && t.Op == OpNil {
		return c.True
	}
	if r, k := addrRoot(t); k == 1 && r.K > 0 {
		return c.True
	}
	return c.False
}

// VerifyLemma proves a lemma  P(params..., k)  by induction on its last parameter k:
//   base:  P(params, b)                          b = the "from" expression
//   step:  up:   k >= b && P(params, k)  ==>  P(params, k+1)
//          down: k <= b && P(params, k)  ==>  P(params, k-1)
// for arbitrary parameter values and an arbitrary memory (recursive spec functions unfold at the ground terms
// b, k, k+-1). Together these give  forall k >= b (<= b): P, which is what a "uselemma" clause assumes; P is written
// with its own range guard, so that it holds trivially on the other side of b.
func (e *Engine) VerifyLemma(bc *BoundContract) (rep *FuncReport) {
	sd := bc.Lemma
	rep = &FuncReport{Key: bc.KeyString(), Fn: "lemma " + sd.decl.Name.Name, Contract: bc}
	u := e.NewUnit(nil, bc)
	u.FnName = bc.Pkg.PkgPath + ".lemma " + sd.decl.Name.Name
	rep.Unit = u
	defer func() {
		if r := recover(); r != nil {
			switch x := r.(type) {
			case Unsupported:
				rep.Err = x.Error()
			case StaleContract:
				rep.Err = x.Error()
				rep.Stale = true
			case string:
				rep.Err = "contract error: " + x
			default:
				panic(r)
			}
		}
	}()
	c := u.C
	st := &State{pc: c.True, cells: map[*ssa.Alloc]Val{}, mems: map[string]*Mem{}}
	u.entryState = st
	var names []*types.Var
	for _, f := range sd.decl.Type.Params.List {
		for _, n := range f.Names {
			names = append(names, sd.pkg.TypesInfo.Defs[n].(*types.Var))
		}
	}
	if len(names) == 0 || sd.from == nil {
		panic("lemma needs an induction parameter and an 'induction up|down from' clause")
	}
	kv := names[len(names)-1]
	if w, _, ok := intWidth(kv.Type()); !ok || w != 64 {
		panic("the induction parameter (last) of a lemma must be an int")
	}
	vars := map[*types.Var]Val{}
	for _, v := range names[:len(names)-1] {
		vars[v] = u.symVal("p_"+v.Name(), v.Type(), true)
	}
	ret := sd.decl.Body.List[0].(*ast.ReturnStmt).Results[0]
	evalAt := func(k *Term) *Term {
		env := &specEnv{u: u, bc: sd.bc, st: st, old: nil, vars: map[*types.Var]Val{}}
		for a, b := range vars {
			env.vars[a] = b
		}
		env.vars[kv] = k
		return env.evalBool(ret)
	}
	// the "from" expression over the other parameters
	fenv := &specEnv{u: u, bc: sd.bc, st: st, vars: map[*types.Var]Val{}}
	i := 0
	for _, f := range sd.from.Type.Params.List {
		for _, n := range f.Names {
			if i < len(names)-1 {
				fenv.vars[sd.pkg.TypesInfo.Defs[n].(*types.Var)] = vars[names[i]]
			}
			i++
		}
	}
	b := fenv.evalTerm(sd.from.Body.List[0].(*ast.ReturnStmt).Results[0])
	pos := e.Fset.Position(sd.decl.Pos())
	k0 := c.Var("sk_ind_k", BV(64))
	// lemmas declared earlier that this proof uses (acyclic by declaration order)
	for _, fl := range sd.uses {
		env := &specEnv{u: u, bc: sd.bc, st: st, vars: map[*types.Var]Val{}}
		j := 0
		for _, f := range sd.usesDecl.Type.Params.List {
			for _, n := range f.Names {
				pv := sd.pkg.TypesInfo.Defs[n].(*types.Var)
				if j < len(names)-1 {
					env.vars[pv] = vars[names[j]]
				} else {
					env.vars[pv] = k0
				}
				j++
			}
		}
		lk := c.BoundVar("lk", BV(64))
		env.vars[sd.pkg.TypesInfo.Defs[fl.Type.Params.List[0].Names[0]].(*types.Var)] = lk
		u.assumeGlobal(c.Forall([]*Term{lk}, env.evalBool(fl.Body.List[0].(*ast.ReturnStmt).Results[0])))
		u.Trusted["lemma used in a lemma proof: "+env.show(fl.Body.List[0].(*ast.ReturnStmt).Results[0])] = true
	}
	u.addObl(&Obligation{Kind: "cover", Name: "lemma hypotheses satisfiable", PC: c.True, Goal: c.False, Expect: "sat", Pos: pos})
	u.addObl(&Obligation{Kind: "lemma.base", Name: sd.decl.Name.Name + " at " + strings.TrimSpace(bc.FC.IndFrom), PC: c.True, Goal: evalAt(b), Pos: pos})
	one := c.BVu(1, 64)
	var rng *Term
	var next *Term
	if bc.FC.IndDir == "up" {
		rng = c.And(c.SLe(b, k0), c.SLt(k0, c.BVi(1<<62, 64)))
		next = c.Add(k0, one)
	} else {
		rng = c.And(c.SLe(k0, b), c.SLt(c.BVi(-(1<<62), 64), k0))
		next = c.Sub(k0, one)
	}
	hyp := evalAt(k0)
	u.addObl(&Obligation{Kind: "lemma.step", Name: sd.decl.Name.Name + " induction " + bc.FC.IndDir, PC: c.And(rng, hyp), Goal: evalAt(next), Pos: pos})
	return rep
}
