//go:build verif
// +build verif

// Contracts for package bits, read by /verif's govc (contract-based deductive verification).
// This file contains comments only; it is compiled only under the build tag "verif" and adds no code.

package bits

//@ global bitsMask readonly

//@ spec func bitAt(buf []byte, i int) uint8 = (buf[i>>3] >> uint(7-i&7)) & 1
//@ spec func readerOK(r *Reader) bool = r != nil && 0 <= r.offset && r.offset <= 8*len(r.buf)

//@ func (r *Reader) ReadBit() (res uint8)
//@   requires readerOK(r) && r.offset < 8*len(r.buf)
//@   modifies r.offset
//@   ensures r.offset == old(r.offset) + 1
//@   ensures res == bitAt(r.buf, old(r.offset))
//@   ensures readerOK(r)

//@ func (r *Reader) Skip(n int) ()
//@   requires readerOK(r) && n <= 8*len(r.buf) - r.offset
//@   modifies r.offset
//@   ensures n > 0 ==> r.offset == old(r.offset) + n
//@   ensures n <= 0 ==> r.offset == old(r.offset)
//@   ensures readerOK(r)

//@ func (r *Reader) readUint64(n int, max int) (res uint64)
//@   requires readerOK(r) && max <= 64 && n <= 8*len(r.buf) - r.offset
//@   modifies r.offset
//@   loop 0: unroll 9
//@   ensures (n <= 0 || n > max) ==> res == 0 && r.offset == old(r.offset)
//@   ensures 0 < n && n <= max ==> r.offset == old(r.offset) + n
//@   ensures 0 < n && n <= max ==> forall(k, 0, n, uint8(res >> uint(n-1-k)) & 1 == bitAt(r.buf, old(r.offset)+k))
//@   ensures 0 < n && n <= max && n < 64 ==> res >> uint(n) == 0
//@   ensures readerOK(r)
