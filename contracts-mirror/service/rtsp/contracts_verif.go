//go:build verif
// +build verif

// Contracts for package rtsp (service), read by /verif's govc (contract-based deductive verification).
// This file contains comments only; it is compiled only under the build tag "verif" and adds no code.

package rtsp

//@ import "io"
//@ import "sync"
//@ import "strings"
//@ import "github.com/cnotch/xlog"
//@ import "github.com/cnotch/ipchub/network/websocket"
//@ import "github.com/cnotch/ipchub/network/socket/buffered"
//@ import fmtrtsp "github.com/cnotch/ipchub/av/format/rtsp"

// ---- assumed contracts on dependencies (scoped to this package) -----------------------------------------
// mutual exclusion: held(mu) is the ghost lock state; a Lock of a held mutex or an Unlock of a free one is an error
//@ extern func (mu *sync.Mutex) Lock() ()
//@   requires !held(mu)
//@   modifies held(mu)
//@   ensures held(mu)
//@ extern func (mu *sync.Mutex) Unlock() ()
//@   requires held(mu)
//@   modifies held(mu)
//@   ensures !held(mu)
//@ extern func (p *sync.Pool) Get() (x interface{})
//@   modifies
//@   fresh x
//@   ensures typeIs(x, "*bytes.Buffer")
//@ extern func (p *sync.Pool) Put(x interface{}) ()
//@   modifies
// writers: out(w) is the ghost sequence of bytes accepted by w; wsout(c) counts the WebSocket messages sent on c
//@ extern func (resp *fmtrtsp.Response) Write(w io.Writer) (err error)
//@   requires resp != nil && w != nil
//@   modifies out(w)
//@   ensures len(out(w)) >= old(len(out(w)))
//@ extern func (resp *fmtrtsp.Response) String() (s string)
//@   modifies
//@ extern func (c *buffered.Conn) Flush() (n int, err error)
//@   requires c != nil
//@   modifies ghostInt(c, "flushed")
//@   ensures err == nil ==> ghostInt(c, "flushed") == len(out(c))
//@ extern func (c websocket.Conn) Write(p []byte) (n int, err error)
//@   modifies ghostInt(c, "wsmessages"), out(c)
//@   ensures ghostInt(c, "wsmessages") == old(ghostInt(c, "wsmessages")) + 1
//@ extern func (l *xlog.Logger) Errorf(format string, args ...interface{}) ()
//@   modifies
//@ extern func (l *xlog.Logger) Debugf(format string, args ...interface{}) ()
//@   modifies
//@ extern func (l *xlog.Logger) LevelEnabled(lvl xlog.Level) (b bool)
//@   modifies
//@ extern func strings.TrimSpace(s string) (r string)
//@   modifies

// ---- C13: every write to the connection happens inside the write lock, one whole message per critical section ----
//@ func (s *Session) response(resp *Response) (rerr error)
//@   requires s != nil && resp != nil && !held(&s.lockW) && (s.wsconn == nil ==> s.conn != nil)
//@   modifies held(&s.lockW), out(s.conn), ghostInt(s.conn, "flushed"), out(s.wsconn), ghostInt(s.wsconn, "wsmessages")
//@   assert[call:Write] held(&s.lockW)
//@   assert[call:Flush] held(&s.lockW)
//@   assert[call:Unlock] s.wsconn != nil ==> ghostInt(s.wsconn, "wsmessages") == old(ghostInt(s.wsconn, "wsmessages")) + 1
//@   assert[call:Unlock] s.wsconn == nil && err == nil ==> ghostInt(s.conn, "flushed") == len(out(s.conn))
//@   local err error
//@   ensures !held(&s.lockW)
//@   ensures s.wsconn != nil ==> ghostInt(s.wsconn, "wsmessages") == old(ghostInt(s.wsconn, "wsmessages")) + 1

//@ import "github.com/cnotch/ipchub/av/format/rtp"
// closing the consumer detaches it from the stream; it never touches the write lock (assumed)
//@ func (c *tcpConsumer) Close() (err error)
//@   trusted
//@   requires c != nil
//@   modifies c.closed, c.source, ghostInt(c, "detached")
//@   ensures c.closed

// interleaved delivery over TCP / ws-rtsp: exactly one frame (TCP) or one WebSocket message per packet, inside the lock
//@ func (c *tcpConsumer) Consume(p Pack) ()
//@   requires c != nil && c.Session != nil && !held(&c.Session.lockW) && typeIs(p, "*rtp.Packet") && p.(*rtp.Packet) != nil && len(p.(*rtp.Packet).Data) <= 65535 && ((p.(*rtp.Packet).Channel == 0 || p.(*rtp.Packet).Channel == 2) ==> 0 <= p.(*rtp.Packet).PayloadOffset && p.(*rtp.Packet).PayloadOffset <= len(p.(*rtp.Packet).Data))
//@   requires c.Session.wsconn == nil ==> c.Session.conn != nil
//@   modifies held(&c.Session.lockW), out(c.Session.conn), out(c.Session.wsconn), ghostInt(c.Session.wsconn, "wsmessages"), c.closed, c.source, ghostInt(c, "detached")
//@   assert[call:Write] held(&c.Session.lockW) || c.Session.wsconn != nil
//@   assert[call:websocket.Conn.Write] held(&c.Session.lockW)
//@   ensures !held(&c.Session.lockW)
//@   ensures old(c.closed) ==> len(out(c.Session.conn)) == old(len(out(c.Session.conn))) && ghostInt(c.Session.wsconn, "wsmessages") == old(ghostInt(c.Session.wsconn, "wsmessages"))
//@   ensures !old(c.closed) && c.Session.wsconn != nil ==> ghostInt(c.Session.wsconn, "wsmessages") == old(ghostInt(c.Session.wsconn, "wsmessages")) + 1
//@   ensures !old(c.closed) && c.Session.wsconn == nil && !c.closed && p.(*rtp.Packet).Channel < 4 && 0 <= c.Session.transport.Channels[p.(*rtp.Packet).Channel] && c.Session.transport.Channels[p.(*rtp.Packet).Channel] <= 255 ==> len(out(c.Session.conn)) == old(len(out(c.Session.conn))) + 4 + len(p.(*rtp.Packet).Data) && out(c.Session.conn)[old(len(out(c.Session.conn)))] == 0x24 && out(c.Session.conn)[old(len(out(c.Session.conn)))+1] == byte(c.Session.transport.Channels[p.(*rtp.Packet).Channel])
//@   ensures !old(c.closed) && c.Session.wsconn == nil && !c.closed && p.(*rtp.Packet).Channel < 4 && 0 <= c.Session.transport.Channels[p.(*rtp.Packet).Channel] && c.Session.transport.Channels[p.(*rtp.Packet).Channel] <= 255 ==> forall(i, 0, len(p.(*rtp.Packet).Data), out(c.Session.conn)[old(len(out(c.Session.conn)))+4+i] == p.(*rtp.Packet).Data[i])

//@ extern func (req *fmtrtsp.Request) Write(w io.Writer) (err error)
//@   requires req != nil && w != nil
//@   modifies out(w)
//@   ensures len(out(w)) >= old(len(out(w)))
//@ extern func (req *fmtrtsp.Request) String() (s string)
//@   modifies

// pull client: requests and responses to the camera are written and flushed inside the write lock
//@ func (c *PullClient) request(req *Request) (rerr error)
//@   requires c != nil && req != nil && c.conn != nil && !held(&c.lockW)
//@   modifies held(&c.lockW), out(c.conn), ghostInt(c.conn, "flushed")
//@   local err error
//@   assert[call:Write] held(&c.lockW)
//@   assert[call:Flush] held(&c.lockW)
//@   assert[call:Unlock] err == nil ==> ghostInt(c.conn, "flushed") == len(out(c.conn))
//@   ensures !held(&c.lockW)

//@ func (c *PullClient) response(resp *Response) (rerr error)
//@   requires c != nil && resp != nil && c.conn != nil && !held(&c.lockW)
//@   modifies held(&c.lockW), out(c.conn), ghostInt(c.conn, "flushed")
//@   local err error
//@   assert[call:Write] held(&c.lockW)
//@   assert[call:Flush] held(&c.lockW)
//@   assert[call:Unlock] err == nil ==> ghostInt(c.conn, "flushed") == len(out(c.conn))
//@   ensures !held(&c.lockW)
