//go:build verif
// +build verif

// Contracts for package media, read by /verif's govc (contract-based deductive verification).
// This file contains comments only; it is compiled only under the build tag "verif" and adds no code.

package media

//@ import "github.com/cnotch/queue"
//@ import "github.com/cnotch/ipchub/stats"
//@ import "github.com/cnotch/ipchub/av/format"

// ---- assumed contracts on dependencies (scoped to this package) -----------------------------------
// seq(q): ghost sequence of the elements held by a queue, oldest first (FIFO is the dependency's contract)
//@ extern func (q *queue.SyncQueue) Len() (n int)
//@   modifies
//@   ensures n == len(seq(q))
//@ extern func (q *queue.SyncQueue) Push(x interface{}) ()
//@   modifies
//@   appends seq(q), x
//@ extern func (f stats.Flow) AddIn(size int64) ()
//@   modifies misc(f)
//@ extern func (p format.Packet) Size() (n int)
//@   modifies

// ---- per-consumer enqueue with GOP-aligned discarding (C01, C04) ------------------------------------
//@ func (c *consumption) send(pack Pack, keyframe bool) ()
//@   requires c != nil && c.recvQueue != nil && pack != nil && c.Flow != nil
//@   modifies c.discarding, seq(c.recvQueue), misc(c.Flow)
//@   calls_only (*github.com/cnotch/queue.SyncQueue).Len, (*github.com/cnotch/queue.SyncQueue).Push, (github.com/cnotch/ipchub/stats.Flow).AddIn, (github.com/cnotch/ipchub/av/format.Packet).Size
//@   ensures keyframe ==> c.discarding == ((old(c.discarding) && old(len(seq(c.recvQueue))) >= c.maxQLen) || (!old(c.discarding) && old(len(seq(c.recvQueue))) > c.maxQLen))
//@   ensures !keyframe ==> c.discarding == old(c.discarding)
//@   ensures c.discarding != old(c.discarding) ==> keyframe
//@   ensures !c.discarding ==> len(seq(c.recvQueue)) == old(len(seq(c.recvQueue))) + 1 && seq(c.recvQueue)[old(len(seq(c.recvQueue)))] == pack
//@   ensures c.discarding ==> len(seq(c.recvQueue)) == old(len(seq(c.recvQueue)))
//@   ensures forall(i, 0, old(len(seq(c.recvQueue))), seq(c.recvQueue)[i] == old(seq(c.recvQueue)[i]))
//@   ensures len(seq(c.recvQueue)) <= old(len(seq(c.recvQueue))) + 1
