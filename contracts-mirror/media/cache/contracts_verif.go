//go:build verif
// +build verif

// Contracts for package cache, read by /verif's govc (contract-based deductive verification).
// This file contains comments only; it is compiled only under the build tag "verif" and adds no code.

package cache

// ---- classification of an RTP payload (C02, C07) ---------------------------------------------------
// Spec classifier written from RFC 6184 5.6-5.8: what a single-NAL or FU-A payload carries.
//@ spec func h264Type(payload []byte) byte = payload[0] & 0x1f
//@ spec func h264IsAggr(payload []byte) bool = h264Type(payload) >= 24 && h264Type(payload) <= 27
//@ spec func h264IsFu(payload []byte) bool = h264Type(payload) == 28 || h264Type(payload) == 29
//@ spec func h264FuStart(payload []byte) bool = payload[1]&0x80 != 0
//@ spec func h264FuType(payload []byte) byte = payload[1] & 0x1f

//@ func (cache *H264Cache) getPalyloadType(payload []byte) (sps bool, pps bool, islice bool)
//@   modifies
//@   terminates
//@   local off int
//@   loop 0: modifies sps, pps, islice
//@   loop 0: invariant 1 <= off && off <= len(payload) + 65535 + 2
//@   loop 0: decreases len(payload) + 65538 - off
//@   ensures len(payload) < 3 ==> !sps && !pps && !islice
//@   ensures len(payload) >= 3 && !h264IsAggr(payload) && !h264IsFu(payload) ==> sps == (h264Type(payload) == 7) && pps == (h264Type(payload) == 8) && islice == (h264Type(payload) == 5)
//@   ensures len(payload) >= 3 && h264IsFu(payload) ==> sps == (h264FuStart(payload) && h264FuType(payload) == 7) && pps == (h264FuStart(payload) && h264FuType(payload) == 8) && islice == (h264FuStart(payload) && h264FuType(payload) == 5)

//@ spec func hevcType(payload []byte) byte = (payload[0] >> 1) & 0x3f
//@ spec func hevcIrap(t byte) bool = t >= 16 && t <= 21

//@ func (cache *HevcCache) getPalyloadType(payload []byte) (vps bool, sps bool, pps bool, islice bool)
//@   modifies
//@   terminates
//@   local off int
//@   loop 0: modifies vps, sps, pps, islice
//@   loop 0: invariant 2 <= off && off <= len(payload) + 65535 + 2
//@   loop 0: decreases len(payload) + 65538 - off
//@   ensures len(payload) < 3 ==> !vps && !sps && !pps && !islice
//@   ensures len(payload) >= 3 && hevcType(payload) != 48 && hevcType(payload) != 49 ==> vps == (hevcType(payload) == 32) && sps == (hevcType(payload) == 33) && pps == (hevcType(payload) == 34) && islice == hevcIrap(hevcType(payload))
//@   ensures len(payload) >= 3 && hevcType(payload) == 49 ==> vps == (payload[2]&0x80 != 0 && payload[2]&0x3f == 32) && sps == (payload[2]&0x80 != 0 && payload[2]&0x3f == 33) && pps == (payload[2]&0x80 != 0 && payload[2]&0x3f == 34) && islice == (payload[2]&0x80 != 0 && hevcIrap(payload[2]&0x3f))
