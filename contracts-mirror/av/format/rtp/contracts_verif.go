//go:build verif
// +build verif

// Contracts for package rtp, read by /verif's govc (contract-based deductive verification).
// This file contains comments only; it is compiled only under the build tag "verif" and adds no code.

package rtp

//@ import "io"
//@ import "bufio"
//@ import "errors"
//@ import pionrtp "github.com/pion/rtp"

// ---- assumed contracts on dependencies (scoped to this package) -----------------------------------
// A reader r yields the ghost byte stream ghostBytes(r,"src") from cursor ghostInt(r,"rpos").
// io.ReadFull: on success exactly len(buf) bytes are consumed and stored in buf; otherwise the cursor
// does not move backwards and buf holds unspecified data.
//@ extern func io.ReadFull(r io.Reader, buf []byte) (n int, err error)
//@   modifies buf[:], ghostInt(r, "rpos")
//@   copies buf, ghostBytes(r, "src")[ghostInt(r, "rpos"):], iteInt(err == nil, len(buf), 0)
//@   ensures err == nil ==> n == len(buf) && ghostInt(r, "rpos") == old(ghostInt(r, "rpos")) + len(buf)
//@   ensures err != nil ==> ghostInt(r, "rpos") >= old(ghostInt(r, "rpos")) && ghostInt(r, "rpos") <= old(ghostInt(r, "rpos")) + len(buf)
//@   ensures old(ghostInt(r, "rpos")) >= 0 && old(ghostInt(r, "rpos")) <= 1<<60
//@ extern func errors.New(text string) (err error)
//@   modifies
//@   ensures err != nil
// pion/rtp Header.Unmarshal: on success PayloadOffset lies within the buffer and past the fixed header
//@ extern func (h *pionrtp.Header) Unmarshal(rawPacket []byte) (err error)
//@   modifies *h
//@   ensures err == nil ==> 12 <= h.PayloadOffset && h.PayloadOffset <= len(rawPacket)

// ---- interleaved framing (C01, C13, C14) ---------------------------------------------------------------
//@ spec func validPacket(p *Packet) bool = p != nil && len(p.Data) <= 65535 && ((p.Channel == ChannelVideo || p.Channel == ChannelAudio) ==> 0 <= p.PayloadOffset && p.PayloadOffset <= len(p.Data))

//@ func (p *Packet) Write(w io.Writer, channelConfig []int) (err error)
//@   requires validPacket(p) && w != nil && len(channelConfig) >= ChannelCount
//@   modifies out(w)
//@   ensures (p.Channel >= ChannelCount || channelConfig[p.Channel] < 0 || channelConfig[p.Channel] > 255) ==> len(out(w)) == old(len(out(w)))
//@   ensures p.Channel >= ChannelCount ==> err != nil
//@   ensures err == nil && p.Channel < ChannelCount && 0 <= channelConfig[p.Channel] && channelConfig[p.Channel] <= 255 ==> len(out(w)) == old(len(out(w))) + 4 + len(p.Data)
//@   ensures err == nil && p.Channel < ChannelCount && 0 <= channelConfig[p.Channel] && channelConfig[p.Channel] <= 255 ==> out(w)[old(len(out(w)))] == 0x24 && out(w)[old(len(out(w)))+1] == byte(channelConfig[p.Channel]) && out(w)[old(len(out(w)))+2] == byte(len(p.Data)>>8) && out(w)[old(len(out(w)))+3] == byte(len(p.Data))
//@   ensures err == nil && p.Channel < ChannelCount && 0 <= channelConfig[p.Channel] && channelConfig[p.Channel] <= 255 ==> forall(i, 0, len(p.Data), out(w)[old(len(out(w)))+4+i] == p.Data[i])
//@   ensures forall(i, 0, old(len(out(w))), out(w)[i] == old(out(w)[i]))

//@ func ReadPacket(r *bufio.Reader, channelConfig []int) (p *Packet, err error)
//@   requires r != nil && len(channelConfig) <= 256
//@   modifies ghostInt(r, "rpos")
//@   terminates
//@   local rangeindex int
//@   loop 0: invariant -1 <= rangeindex && rangeindex < len(channelConfig)
//@   loop 0: decreases len(channelConfig) - rangeindex
//@   ensures err == nil ==> p != nil && validPacket(p)
//@   ensures err == nil ==> ghostInt(r, "rpos") == old(ghostInt(r, "rpos")) + 4 + len(p.Data)
//@   ensures err == nil ==> ghostBytes(r, "src")[old(ghostInt(r, "rpos"))] == 0x24
//@   ensures err == nil ==> len(p.Data) == int(ghostBytes(r, "src")[old(ghostInt(r, "rpos"))+2])<<8 | int(ghostBytes(r, "src")[old(ghostInt(r, "rpos"))+3])
//@   ensures err == nil ==> forall(k, 0, len(p.Data), p.Data[k] == ghostBytes(r, "src")[old(ghostInt(r, "rpos"))+4+k])
//@   ensures err == nil ==> int(p.Channel) < len(channelConfig) && channelConfig[p.Channel] == int(ghostBytes(r, "src")[old(ghostInt(r, "rpos"))+1])
