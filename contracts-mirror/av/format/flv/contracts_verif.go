//go:build verif
// +build verif

// Contracts for package flv, read by /verif's govc (contract-based deductive verification).
// This file contains comments only; it is compiled only under the build tag "verif" and adds no code.

package flv

//@ import "io"
//@ import "errors"

//@ global flvHeaderTemplate readonly

//@ extern func errors.New(text string) (err error)
//@   modifies
//@   ensures err != nil

// ---- FLV file format 10.1, Annex E: tag layout as an independent decoder --------------------------------------
//@ spec func be24(b []byte, o int) uint32 = uint32(b[o])<<16 | uint32(b[o+1])<<8 | uint32(b[o+2])
//@ spec func be32(b []byte, o int) uint32 = uint32(b[o])<<24 | uint32(b[o+1])<<16 | uint32(b[o+2])<<8 | uint32(b[o+3])
// timestamp on the wire: 24 low bits then the extended (high) byte
//@ spec func wireTimestamp(b []byte, o int) uint32 = be24(b, o+4) | uint32(b[o+7])<<24
// rebased timestamp: never a wrapped value for a tag older than the first one
//@ spec func rebased(ts uint32, delta uint32) uint32 = uint32(iteInt(ts >= delta, int(ts - delta), 0))

//@ func writeTag(w io.Writer, tag *Tag, timestampDelta uint32) (err error)
//@   requires w != nil && tag != nil && len(tag.Data) < 1<<24
//@   modifies out(w)
//@   ensures err == nil ==> len(out(w)) == old(len(out(w))) + 11 + len(tag.Data)
//@   ensures err == nil ==> out(w)[old(len(out(w)))] == ((tag.Filter & 1) << 5) | (tag.TagType & 0x1f)
//@   ensures err == nil ==> int(be24(out(w), old(len(out(w)))+1)) == len(tag.Data)
//@   ensures err == nil ==> wireTimestamp(out(w), old(len(out(w)))) == rebased(tag.Timestamp, timestampDelta)
//@   ensures err == nil ==> be24(out(w), old(len(out(w)))+8) == tag.StreamID & 0xffffff
//@   ensures err == nil ==> forall(i, 0, len(tag.Data), out(w)[old(len(out(w)))+11+i] == tag.Data[i])
//@   ensures forall(i, 0, old(len(out(w))), out(w)[i] == old(out(w)[i]))
//@   ensures len(out(w)) >= old(len(out(w)))

//@ func (w *Writer) writeTagSize(tagSize uint32) (err error)
//@   requires w != nil && w.w != nil
//@   modifies out(w.w)
//@   ensures err == nil ==> len(out(w.w)) == old(len(out(w.w))) + 4 && be32(out(w.w), old(len(out(w.w)))) == tagSize
//@   ensures forall(i, 0, old(len(out(w.w))), out(w.w)[i] == old(out(w.w)[i]))
//@   ensures len(out(w.w)) >= old(len(out(w.w)))

// every tag is followed by its exact size; timestamps are rebased to the first tag written
//@ func (w *Writer) WriteFlvTag(tag *Tag) (err error)
//@   requires w != nil && w.w != nil && tag != nil && len(tag.Data) < 1<<24
//@   modifies out(w.w), w.timestampDelta
//@   ensures w.timestampDelta == uint32(iteInt(old(w.timestampDelta) == 0xffffffff, int(tag.Timestamp), int(old(w.timestampDelta))))
//@   ensures err == nil ==> len(out(w.w)) == old(len(out(w.w))) + 11 + len(tag.Data) + 4
//@   ensures err == nil ==> int(be32(out(w.w), old(len(out(w.w))) + 11 + len(tag.Data))) == 11 + len(tag.Data)
//@   ensures err == nil ==> wireTimestamp(out(w.w), old(len(out(w.w)))) == rebased(tag.Timestamp, w.timestampDelta)
//@   ensures err == nil ==> out(w.w)[old(len(out(w.w)))] == ((tag.Filter & 1) << 5) | (tag.TagType & 0x1f) && int(be24(out(w.w), old(len(out(w.w)))+1)) == len(tag.Data)
//@   ensures err == nil ==> forall(i, 0, len(tag.Data), out(w.w)[old(len(out(w.w)))+11+i] == tag.Data[i])
//@   ensures forall(i, 0, old(len(out(w.w))), out(w.w)[i] == old(out(w.w)[i]))

// file header: 'FLV' 1, type flags, header length 9, PreviousTagSize0 = 0
//@ func NewWriter(w io.Writer, typeFlags byte) (wr *Writer, err error)
//@   requires w != nil
//@   modifies out(w)
//@   ensures typeFlags&0x05 == 0 ==> err != nil && len(out(w)) == old(len(out(w)))
//@   ensures err == nil ==> wr != nil && wr.w == w && wr.timestampDelta == 0xffffffff && len(out(w)) == old(len(out(w))) + 13
//@   ensures err == nil ==> out(w)[old(len(out(w)))] == 0x46 && out(w)[old(len(out(w)))+1] == 0x4c && out(w)[old(len(out(w)))+2] == 0x56 && out(w)[old(len(out(w)))+3] == 1
//@   ensures err == nil ==> out(w)[old(len(out(w)))+4] == typeFlags & 0x05 && be32(out(w), old(len(out(w)))+5) == 9 && be32(out(w), old(len(out(w)))+9) == 0
//@   ensures forall(i, 0, old(len(out(w))), out(w)[i] == old(out(w)[i]))
