//go:build verif
// +build verif

// Contracts for package hevc, read by /verif's govc (contract-based deductive verification).
// This file contains comments only; it is compiled only under the build tag "verif" and adds no code.

package hevc

// ---- picture size from the SPS: ITU-T H.265 (7-?) conformance window, Table 6-1 ------------------------------
//@ spec func chromaArrayType5(sps *H265RawSPS) int = iteInt(sps.Separate_colour_plane_flag != 0, 0, int(sps.Chroma_format_idc))
//@ spec func subWidthC5(sps *H265RawSPS) int = iteInt(chromaArrayType5(sps) == 1 || chromaArrayType5(sps) == 2, 2, 1)
//@ spec func subHeightC5(sps *H265RawSPS) int = iteInt(chromaArrayType5(sps) == 1, 2, 1)

//@ func (sps *H265RawSPS) Width() (w int)
//@   requires sps != nil
//@   modifies
//@   ensures sps.Conformance_window_flag == 1 ==> w == int(sps.Pic_width_in_luma_samples) - subWidthC5(sps)*(int(sps.Conf_win_left_offset)+int(sps.Conf_win_right_offset))
//@   ensures sps.Conformance_window_flag != 1 ==> w == int(sps.Pic_width_in_luma_samples)

//@ func (sps *H265RawSPS) Height() (h int)
//@   requires sps != nil
//@   modifies
//@   ensures sps.Conformance_window_flag == 1 ==> h == int(sps.Pic_height_in_luma_samples) - subHeightC5(sps)*(int(sps.Conf_win_top_offset)+int(sps.Conf_win_bottom_offset))
//@   ensures sps.Conformance_window_flag != 1 ==> h == int(sps.Pic_height_in_luma_samples)
