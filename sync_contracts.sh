#!/bin/bash
# copy contract files from the mirror into /repo (guarded, comment-only files)
cd /verif/contracts-mirror && find . -name contracts_verif.go | while read f; do mkdir -p /repo/$(dirname $f); cp $f /repo/$f; done
cd /repo && git status --short | head
