#!/usr/bin/env python3
# Regenerates MANIFEST.json from claims.json (claimed properties) and the fixed properties.jsonl.
import json, subprocess
ids=[json.loads(l)['id'] for l in open('/verif/properties.jsonl')]
claims=json.load(open('/verif/claims.json'))
hooks=subprocess.run("cd /repo && git log --format=%H --grep='^verif:'",shell=True,capture_output=True,text=True).stdout.split()
m={"version":1,
 "setup_cmd":"/verif/setup.sh",
 "hooks":{"guard":"verif","enable":"go build -tags verif ./... (adds only the comment-only contract files <pkg>/contracts_verif.go; no executable code, no runtime hook)","baseline_off_cmd":"cd /repo && go test -vet=off -count=1 ./...","source_commits":hooks,"add_only":True},
 "engines":[{"name":"govc","path":"/verif/engine","serves_properties":sorted(claims["claimed"].keys()),"kind_free_text":"contract-based deductive verifier for Go written for this task: Gobra-style contracts in comment-only files, symbolic execution of go/ssa (NaiveForm) generating weakest-precondition style obligations per function (callers see callee contracts), exact bit-vector integers, lazy Addr-indexed memory, obligations discharged by z3 4.8.12 / z3 5.1.0 / cvc5 1.0.3"}],
 "checks":[],"not_applicable":[],"notes":"See DESIGN.md. Every check rebuilds its obligations from /repo's working tree on each run; exit 2 = the machinery could not run (never a verdict)."}
for i in ids:
    if i in claims["claimed"]:
        c=claims["claimed"][i]
        m["checks"].append({"property_id":i,"quick_cmd":f"/verif/check {i} quick","thorough_cmd":f"/verif/check {i} thorough","evidence_file":f"/verif/evidence/{i}.json","replay_cmd_template":"/verif/replay.sh {path}","engine":"govc","level_claimed":{"category":"proof","text":c["text"],"design_ref":"DESIGN.md section 5 "+i},"level_note":c["note"],"technique":"contract-based deductive verification: contracts on the real Go functions, VCs generated from go/ssa, discharged by z3/cvc5"})
    else:
        m["not_applicable"].append({"property_id":i,"reason":claims["not_applicable"].get(i,"not yet brought under contract by the generator (work in progress; see DESIGN.md section 7) - not claimed rather than decided by another technique")})
json.dump(m,open('/verif/MANIFEST.json','w'),indent=1)
print("claimed",len(m["checks"]),"n/a",len(m["not_applicable"]))
